#!/opt/veriftools/pyvenv/bin/python
"""Self-test: MANIFEST.json and every evidence file validate against the schemas (run with python3-vt)."""
import json, sys, os, glob, jsonschema
V = os.path.dirname(os.path.dirname(os.path.abspath(__file__)))
ok = True
def val(doc, schema, name):
  global ok
  try: jsonschema.validate(json.load(open(doc)), json.load(open(schema))); print('ok  ', name)
  except Exception as e: ok = False; print('FAIL', name, str(e)[:300])
val(V + '/MANIFEST.json', '/root/.vp/MANIFEST.schema.json', 'MANIFEST.json')
for f in sorted(glob.glob(V + '/evidence/*.json')): val(f, '/root/.vp/EVIDENCE.schema.json', os.path.basename(f))
sys.exit(0 if ok else 1)
