#!/bin/bash
# Offline setup: nothing to build except (lazily, by the checks that need it) the C++ parser, which the
# checks compile from /repo's current parser_cpp/logica_parse.cpp into /verif/.cache/cpp/<source hash>/.
cd "$(dirname "$0")/.."
mkdir -p evidence replays .cache
/venv/bin/python -c "import sqlite3, sys; print('python', sys.version.split()[0], 'sqlite', sqlite3.sqlite_version)"
