#!/venv/bin/python
"""try_patch.py <patch.diff> <ID> [<ID>...] [--tier quick] [--no-tests]
Applies a patch to a scratch copy of /repo (outside /repo and /verif), runs the pinned 40-test command there (must still
pass), runs the given checks with VERIF_REPO pointing at the copy, prints whether each reported a VIOLATION, removes the copy."""
import subprocess, sys, os, tempfile, shutil, json, re
args = [a for a in sys.argv[1:] if not a.startswith('--')]
patch = os.path.abspath(args[0]); ids = args[1:]
tier = 'quick'
if '--thorough' in sys.argv: tier = 'thorough'
tmp = tempfile.mkdtemp(prefix='verif_mut_')
try:
  subprocess.check_call('git -C /repo archive HEAD | tar -x -C %s' % tmp, shell=True)
  r = subprocess.run(['git', 'apply', '--whitespace=nowarn', patch], cwd=tmp, capture_output=True, text=True)
  if r.returncode:
    r = subprocess.run(['patch', '-p1', '-i', patch], cwd=tmp, capture_output=True, text=True)
    if r.returncode: print('PATCH DOES NOT APPLY', r.stdout, r.stderr); sys.exit(3)
  if '--no-tests' not in sys.argv:
    base = json.load(open('/root/.vp/BASELINE.json'))
    t = subprocess.run('/venv/bin/python -m pytest -q -p no:cacheprovider --timeout=900 --continue-on-collection-errors --junitxml=%s/junit.xml' % tmp,
                       shell=True, cwd=tmp, capture_output=True, text=True)
    import xml.etree.ElementTree as ET
    passed = set()
    for tc in ET.parse(tmp + '/junit.xml').getroot().iter('testcase'):
      if not any(c.tag in ('failure', 'error', 'skipped') for c in tc):
        passed.add('%s::%s' % (tc.get('classname'), tc.get('name')))
    missing = [t for t in base['stable_pass'] if t not in passed]
    print('pinned tests: %d/%d pass%s' % (len(base['stable_pass']) - len(missing), len(base['stable_pass']), (' MISSING ' + str(missing[:3])) if missing else ''))
  env = dict(os.environ, VERIF_REPO=tmp)
  for pid in ids:
    r = subprocess.run(['./check', pid, '--tier', tier, '--no-evidence'], cwd='/verif', env=env, capture_output=True, text=True)
    out = [l for l in r.stdout.split('\n') if l.strip()]
    nv = sum(1 for l in out if l.startswith('VIOLATION'))
    print('%s: exit=%d violations=%d' % (pid, r.returncode, nv))
    for l in out:
      if l.startswith('  [') : print('   ', l[:400])
    if r.returncode not in (0, 1): print(r.stderr[-2000:])
finally:
  shutil.rmtree(tmp, ignore_errors=True)
