#!/venv/bin/python
"""seed_eval.py <seed_dir> <k> <name> <check ids...>
Confirms a seeded change independently (scratch copy outside /repo and /verif): patch applies, pinned tests keep their 40 passes,
demo fails with the change and passes without; then runs the given checks against the changed copy. On success stores
/verif/seeded/<name>/{patch.diff, demo.py, meta.json}."""
import subprocess, sys, os, tempfile, shutil, json, xml.etree.ElementTree as ET, time
seed_dir, k, name = sys.argv[1], sys.argv[2], sys.argv[3]; ids = [a for a in sys.argv[4:] if not a.startswith('--')]
tier = 'thorough' if '--thorough' in sys.argv else 'quick'
patch = os.path.join(seed_dir, 'change%s.diff' % k); demo = os.path.join(seed_dir, 'demo%s.py' % k); meta = json.load(open(os.path.join(seed_dir, 'meta%s.json' % k)))
base = json.load(open('/root/.vp/BASELINE.json'))
def fresh():
  d = tempfile.mkdtemp(prefix='verif_seed_')
  subprocess.check_call('git -C /repo archive HEAD | tar -x -C %s' % d, shell=True); return d
def tests(d):
  subprocess.run('/venv/bin/python -m pytest -q -p no:cacheprovider --timeout=900 --continue-on-collection-errors --junitxml=%s/junit.xml' % d, shell=True, cwd=d, capture_output=True, text=True)
  passed = set()
  for tc in ET.parse(d + '/junit.xml').getroot().iter('testcase'):
    if not any(c.tag in ('failure', 'error', 'skipped') for c in tc): passed.add('%s::%s' % (tc.get('classname'), tc.get('name')))
  return [t for t in base['stable_pass'] if t not in passed]
clean = fresh(); mut = fresh()
ran = []
try:
  r = subprocess.run(['git', 'apply', '--whitespace=nowarn', patch], cwd=mut, capture_output=True, text=True)
  if r.returncode: print('PATCH DOES NOT APPLY', r.stderr); sys.exit(3)
  missing = tests(mut); ran.append('pinned tests on changed copy: %d missing' % len(missing))
  dm = subprocess.run(['/venv/bin/python', demo, mut], capture_output=True, text=True, timeout=600)
  dc = subprocess.run(['/venv/bin/python', demo, clean], capture_output=True, text=True, timeout=600)
  ran.append('demo on changed copy: exit %d; on clean copy: exit %d' % (dm.returncode, dc.returncode))
  print('tests missing:', missing[:3], '| demo changed exit', dm.returncode, '| demo clean exit', dc.returncode)
  confirmed = (not missing) and dm.returncode == 1 and dc.returncode == 0
  results = {}
  env = dict(os.environ, VERIF_REPO=mut)
  for pid in ids:
    t0 = time.time()
    r = subprocess.run(['./check', pid, '--tier', tier, '--no-evidence'], cwd='/verif', env=env, capture_output=True, text=True)
    lines = [l for l in r.stdout.split('\n') if l.startswith('  [')]
    results[pid] = dict(exit=r.returncode, caught=r.returncode == 1, tier=tier, wall_s=round(time.time() - t0), first=lines[0][:300] if lines else '')
    print('%s: exit=%d %s' % (pid, r.returncode, lines[0][:260] if lines else ''))
    if r.returncode not in (0, 1): print(r.stderr[-1500:])
  if confirmed:
    out = os.path.join('/verif/seeded', name); os.makedirs(out, exist_ok=True)
    shutil.copy(patch, os.path.join(out, 'patch.diff')); shutil.copy(demo, os.path.join(out, 'demo.py'))
    old = {}
    if os.path.exists(os.path.join(out, 'meta.json')): old = json.load(open(os.path.join(out, 'meta.json'))).get('checks', {})
    old.update(results)
    meta.update(dict(confirmed=True, what_i_ran=ran, checks=old, origin='independent sub-agent given only the property text'))
    json.dump(meta, open(os.path.join(out, 'meta.json'), 'w'), indent=1)
  else:
    print('NOT CONFIRMED - not kept')
finally:
  shutil.rmtree(clean, ignore_errors=True); shutil.rmtree(mut, ignore_errors=True)
