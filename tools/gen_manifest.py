#!/venv/bin/python
"""Regenerates /verif/MANIFEST.json from the check modules present in mc/checks (so it is always valid and current)."""
import json, os, sys, importlib
VERIF = os.path.dirname(os.path.dirname(os.path.abspath(__file__)))
sys.path.insert(0, VERIF)
props = [json.loads(l) for l in open(os.path.join(VERIF, 'properties.jsonl'))]
checks = []; na = []
for p in props:
  pid = p['id']
  path = os.path.join(VERIF, 'mc', 'checks', pid.lower() + '.py')
  if not os.path.exists(path):
    na.append(dict(property_id=pid, reason='check not built yet (bounded-exhaustive design in DESIGN.md section 4); not claimed until the check exists and is quiet on the unchanged tree'))
    continue
  mod = importlib.import_module('mc.checks.' + pid.lower())
  if getattr(mod, 'NOT_CLAIMED', None):
    na.append(dict(property_id=pid, reason=mod.NOT_CLAIMED)); continue
  checks.append(dict(
    property_id=pid,
    quick_cmd='./check %s --tier quick' % pid,
    thorough_cmd='./check %s --tier thorough' % pid,
    evidence_file='evidence/%s.json' % pid,
    replay_cmd_template='./check %s --replay {path}' % pid,
    engine='mc',
    level_claimed=dict(category=mod.LEVEL, text=mod.LEVEL_TEXT, design_ref='DESIGN.md section 4, ' + pid),
    level_note=mod.LEVEL_NOTE,
    technique=mod.TECHNIQUE))
man = dict(
  version=1,
  setup_cmd='./tools/setup.sh',
  hooks=dict(guard='EVGSKV_LOGICA_VERIF', enable='no source hooks are needed: checks import /repo (VERIF_REPO) directly in fresh /venv/bin/python processes; EVGSKV_LOGICA_VERIF=1 is exported by ./check but nothing in /repo reads it',
             baseline_off_cmd='cd /repo && /venv/bin/python -m pytest -ra -q -p no:cacheprovider --timeout=900 --continue-on-collection-errors',
             source_commits=[], add_only=True),
  engines=[dict(name='mc', path='mc/', serves_properties=[c['property_id'] for c in checks],
                kind_free_text='hand-written bounded-exhaustive explorer (explicit-state / complete enumeration up to stated bounds) driving the real Logica code, with reference models in Python')],
  checks=checks,
  notes='All verdicts come from complete enumeration of a stated finite space executed on the real implementation; VERIF_SEED only permutes visiting order. See DESIGN.md.',
  not_applicable=na)
json.dump(man, open(os.path.join(VERIF, 'MANIFEST.json'), 'w'), indent=1)
print('checks:', [c['property_id'] for c in checks], 'not claimed:', [n['property_id'] for n in na])
