#!/bin/bash
# sweep.sh <tier> <seed>... : every check of the tier for each VERIF_SEED, fresh process each, no evidence written; one summary line per run
tier=$1; shift
cd "$(dirname "$0")/.."
for seed in "$@"; do
  for c in ${CHECKS:-C01 C02 C03 C04 C05 C06 C07 C08 C09 C10 C11 C12 C13 C14 C15 C16 C17 C18 C19 C20}; do
    s=$(date +%s)
    out=$(VERIF_SEED=$seed ./check $c --tier $tier --no-evidence 2>&1); rc=$?
    e=$(date +%s)
    echo "seed=$seed $c rc=$rc $((e-s))s violations=$(echo "$out" | grep -c '^VIOLATION') known=$(echo "$out" | grep -c '^KNOWN-FINDING')"
    if [ $rc -ne 0 ]; then echo "$out" | grep -v '^KNOWN-FINDING' | tail -6 | cut -c1-600; fi
  done
done
