#!/venv/bin/python
"""Regenerates /verif/seeded/README.md from the meta.json files."""
import json, glob, os
rows = []
for d in sorted(glob.glob('/verif/seeded/*/')):
  m = json.load(open(d + 'meta.json'))
  name = os.path.basename(d.rstrip('/'))
  checks = ', '.join('%s %s' % (k, 'caught' if v.get('caught') else 'missed') for k, v in sorted(m.get('checks', {}).items()))
  rows.append('| %s | %s | %s | %s | %s |' % (name, m['property'], str(m.get('site', ''))[:70].replace('|', '/'), checks, str(m.get('needs', ''))[:160].replace('|', '/').replace('\n', ' ')))
head = '''# Seeded changes

Each directory holds `patch.diff` (applies to /repo with `git apply`), `demo.py` (fails with the change, passes without; `python demo.py <checkout>`), and `meta.json` (property, site, what it needs to manifest, what was run to confirm it, and the result of every check run against it with `tools/seed_eval.py`, which works on scratch copies outside /repo and /verif).

All were written by independent sub-agents given only the text of one property (second round: plus the list of sites already used; third round, `*_r3_*`: plus the request to look for defects that escape small-scope testing - two-digit positions, many rules, deep nesting, other values, feature interactions, state across compilations); none is ever committed to /repo.

| change | property | site | checks (last evaluation of each, quick tier) | needs |
|---|---|---|---|---|
'''
open('/verif/seeded/README.md', 'w').write(head + '\n'.join(rows) + '\n')
print(len(rows), 'changes;', sum(1 for r in rows if 'missed' in r), 'rows mention a missed (other-property) check')
