"""Both parsers behind one interface (C06, C12, C15): parser_py.parse.ParseFile under LOGICA_PARSER=PY and =CPP.
The C++ shared object is rebuilt from the CURRENT parser_cpp/logica_parse.cpp into /verif/.cache/cpp/<sha256 of the
source>/ (XDG_CACHE_HOME points there, so the bridge's own mtime-based cache can never serve a stale build)."""
import os, hashlib, json, re, itertools
from . import impl

VERIF = os.path.dirname(os.path.dirname(os.path.abspath(__file__)))


def setup_cpp():
  """build (once per source hash) and point the bridge at it; call in the parent before forking workers"""
  src = os.path.join(impl.REPO, 'parser_cpp', 'logica_parse.cpp')
  bridge = os.path.join(impl.REPO, 'parser_cpp', 'logica_parse_cpp.py')
  h = hashlib.sha256(open(src, 'rb').read() + open(bridge, 'rb').read()).hexdigest()[:20]
  cache = os.path.join(VERIF, '.cache', 'cpp', h)
  os.makedirs(cache, exist_ok=True)
  os.environ['XDG_CACHE_HOME'] = cache
  m = impl.M('parser_cpp.logica_parse_cpp')
  so = impl.quiet(m.EnsureCppParserSharedObject)
  return so


def main_statements(text):
  p = impl.M('parser_py.parse')
  try:
    s = p.HeritageAwareString(p.RemoveComments(p.HeritageAwareString(text)))
    return {str(x).strip() for x in p.Split(s, ';')} | {str(x).strip().replace('-->', ' = ') for x in p.Split(s, ';')}
  except Exception:
    return set()


def canon_rules(parsed, main_text=None):
  """main-file rules as a list (same order), rules of imported files as a set (the property's wording); heritage as text.
  A rule belongs to the main file when its full_text is a statement of the main text."""
  rules = parsed['rule']
  if main_text is None or 'import ' not in main_text:
    return json.dumps(rules, sort_keys=True, default=str)
  stm = main_statements(main_text)
  main, other = [], []
  for r in rules:
    j = json.dumps(r, sort_keys=True, default=str)
    (main if str(r.get('full_text', '')).strip() in stm else other).append(j)
  return json.dumps([main, sorted(other)])


def canon_rules_split(parsed, main_preds_hint=None):
  return canon_rules(parsed)


def parse_with(mode, text, import_root=None):
  """-> ('ok', canonical json, parsed) | ('reject', message) | ('crash', exception type, message)"""
  p = impl.M('parser_py.parse')
  os.environ['LOGICA_PARSER'] = mode
  try:
    r = impl.quiet(p.ParseFile, text, import_root=import_root)
    return ('ok', canon_rules(r, text), r)
  except p.ParsingException as e:
    return ('reject', str(e)[:200])
  except RecursionError as e:
    return ('crash', 'RecursionError', '')
  except BaseException as e:
    if isinstance(e, KeyboardInterrupt): raise
    return ('crash', type(e).__name__, str(e)[:200])
  finally:
    os.environ.pop('LOGICA_PARSER', None)


def parse_both(text, import_root=None):
  return parse_with('PY', text, import_root), parse_with('CPP', text, import_root)


TOKEN_RE = re.compile(r'''
   \s+
 | \#[^\n]*
 | /\*.*?\*/
 | """.*?"""
 | "(?:[^"\\\n]|\\.)*"
 | '(?:[^'\\\n]|\\.)*'
 | `[^`]*`
 | [A-Za-z_@][A-Za-z0-9_]*
 | \d+\.\d*(?:e\d+)?|\.\d+|\d+(?:e\d+)?u?
 | :-|:=|-->|=>|==|!=|<=|>=|\+\+\?|\+\+|&&|\|\||->|\.\.|\+=
 | .
''', re.X | re.S)


def tokens(text):
  """-> list of (token text, is_space)"""
  out = []
  for m in TOKEN_RE.finditer(text):
    t = m.group(0)
    out.append((t, t.isspace()))
  return out


def strip_heritage(node):
  """parsed rules without source-text annotations (expression_heritage / full_text)"""
  if isinstance(node, list): return [strip_heritage(x) for x in node]
  if isinstance(node, dict): return {k: strip_heritage(v) for k, v in node.items() if k not in ('expression_heritage', 'full_text')}
  return node
