"""Functor application as textual predicate substitution on the program model (the statement of C04)."""
from . import lang
from .lang import Rule, Functor


def rename_preds_in_rule(r, m):
  def f(e):
    if e[0] == 'call' and e[1] in m:
      if isinstance(m[e[1]], tuple): return m[e[1]]          # a constant given as functor argument replaces the call
      return ('call', m[e[1]], e[2])
    if e[0] == 'comb': return ('comb', e[1], e[2], rename_body(e[3], m), e[4])
    return e
  def rename_body(body, m):
    out = []
    for p in body:
      t = p[0]
      if t == 'lit': out.append(('lit', m.get(p[1], p[1]), tuple((k, lang.emap(x, f)) for k, x in p[2])))
      elif t == 'cmp': out.append(('cmp', lang.emap(p[1], f)))
      elif t == 'eq': out.append(('eq', lang.emap(p[1], f), lang.emap(p[2], f), p[3]))
      elif t == 'in': out.append(('in', lang.emap(p[1], f), lang.emap(p[2], f)))
      elif t == 'not': out.append(('not', rename_body(p[1], m)))
      elif t == 'or': out.append(('or', tuple(rename_body(b, m) for b in p[1])))
      elif t == 'imp': out.append(('imp', rename_body(p[1], m), rename_body(p[2], m)))
      elif t == 'aggeq': out.append(('aggeq', p[1], p[2], lang.emap(p[3], f), rename_body(p[4], m)))
      else: raise ValueError(p)
    return tuple(out)
  def arg(e):
    return ('aggr', e[1], lang.emap(e[2], f)) if isinstance(e, tuple) and e[0] == 'aggr' else lang.emap(e, f)
  return r.replace(pred=m.get(r.pred, r.pred), args=tuple((k, arg(e)) for k, e in r.args),
                   value=None if r.value is None else arg(r.value), body=None if r.body is None else rename_body(r.body, m))


def pred_deps(rules_of, p):
  out = set()
  for r in rules_of.get(p, []):
    def f(e):
      if e[0] == 'call': out.add(e[1])
      if e[0] == 'comb': scan(e[3])
      return e
    def scan(body):
      for q in body:
        t = q[0]
        if t == 'lit':
          out.add(q[1])
          for _, x in q[2]: lang.emap(x, f)
        elif t == 'cmp': lang.emap(q[1], f)
        elif t in ('eq', 'in'): lang.emap(q[1], f); lang.emap(q[2], f)
        elif t == 'not': scan(q[1])
        elif t == 'or':
          for b in q[1]: scan(b)
        elif t == 'imp': scan(q[1]); scan(q[2])
        elif t == 'aggeq': lang.emap(q[3], f); scan(q[4])
    for _, e in r.args: lang.emap(e[2] if e[0] == 'aggr' else e, f)
    if r.value is not None: lang.emap(r.value[2] if r.value[0] == 'aggr' else r.value, f)
    if r.body: scan(r.body)
  return out


class FunctorArgumentError(Exception): pass


def expand(program, origin=None):
  """-> list of plain rules in which every `N := F(A: B, ...)` is replaced by copies of F and of every predicate
  between F and an argument, renamed apart (N__P for an intermediate P), with each argument replaced by its value."""
  rules = [s for s in program.stmts if isinstance(s, Rule)]
  functors = [s for s in program.stmts if isinstance(s, Functor)]
  pending = list(functors)
  guard = 0
  while pending:
    guard += 1
    if guard > 100: raise FunctorArgumentError('functor definitions do not terminate')
    rules_of = {}
    for r in rules: rules_of.setdefault(r.pred, []).append(r)
    fn = None
    pending_new = {p.new for p in pending}
    def closure(p, acc):
      if p in acc: return acc
      acc.add(p)
      for d in (pred_deps(rules_of, p) if p in rules_of else ()): closure(d, acc)
      return acc
    for cand in pending:
      # applicable once F, the values and everything they are built from are plain predicates
      names = set()
      for n in {cand.base} | {b for _, b in cand.bindings if not isinstance(b, tuple)}: closure(n, names)
      if not (names & pending_new): fn = cand; break
    if fn is None: raise FunctorArgumentError('cyclic functor definitions')
    pending.remove(fn)
    args = dict(fn.bindings)
    # predicates reachable from F
    reach = {}
    def visit(p):
      if p in reach: return reach[p]
      reach[p] = set()
      ds = pred_deps(rules_of, p) if p in rules_of else set()
      acc = set(ds)
      for d in ds:
        if d != p: acc |= visit(d)
      reach[p] = acc
      return acc
    visit(fn.base)
    below = reach[fn.base] | {fn.base}
    for a in args:
      if a not in below or a == fn.base: raise FunctorArgumentError('%s does not depend on %s' % (fn.base, a))
    # predicates to clone: F and everything (defined) on a path from F to an argument
    clone = {p for p in below if p in rules_of and p not in args and (p == fn.base or reach.get(p, set()) & set(args))}
    ren = {p: (fn.new if p == fn.base else '%s__%s' % (fn.new, p)) for p in clone}
    if origin is not None:
      for k, v in ren.items(): origin[v] = origin.get(k, k)
    ren.update(args)
    for p in sorted(clone):
      for r in rules_of[p]:
        rules.append(rename_preds_in_rule(r, ren))
  return rules
