"""Program model: a tiny AST for the core fragment of Logica, and its printer.

Programs are generated as ASTs and printed, never parsed by the harness.
Expressions (hashable tuples):
  ('v', name) ('n', number) ('s', str) ('b', bool) ('null',)
  ('bin', op, a, b)   op in + - * / % ++ == != < <= > >= && ||
  ('un', op, a)       op in - !
  ('list', (e,...)) ('rec', ((field, e),...)) ('fld', e, field) ('elem', e, i)  # Element(e, i)
  ('if', c, t, e) ('call', name, ((field|None, e),...)) ('isnull', e) ('inx', e, l)
  ('comb', op, e, body, style)   style 0: Op{e :- body}   1: (combine Op= e :- body)
  ('arrow', a, b)  a -> b
Propositions:
  ('lit', pred, ((field, e),...))   field: int (positional) or str (named)
  ('cmp', e) ('eq', a, b, sym) ('in', e, l) ('not', body) ('or', (body,...)) ('imp', bodyA, bodyB)
  ('aggeq', var, op, e, body)       x Op= (e :- body)
A body is a tuple of propositions (conjunction).
"""
import json

AGG_SUGAR = {'Sum': '+'}


def V(n): return ('v', n)
def N(x): return ('n', x)
def S(x): return ('s', x)
def Bin(op, a, b): return ('bin', op, a, b)
def Lit(pred, *args, **named):
  return ('lit', pred, tuple((i, a) for i, a in enumerate(args)) + tuple(named.items()))
def Call(name, *args, **named):
  return ('call', name, tuple((None, a) for a in args) + tuple(named.items()))
def Eq(a, b, sym='=='): return ('eq', a, b, sym)
def Cmp(op, a, b): return ('cmp', ('bin', op, a, b))
def Not(*body): return ('not', tuple(body))
def Comb(op, e, body, style=0): return ('comb', op, e, tuple(body), style)
def Aggr(op, e): return ('aggr', op, e)


class Rule:
  def __init__(self, pred, args=(), body=None, value=None, distinct=False, order_by=None, limit=None):
    self.pred = pred
    self.args = tuple(args)       # ((field, expr | ('aggr', op, expr)), ...)
    self.body = None if body is None else tuple(body)
    self.value = value            # None | expr | ('aggr', op, expr)
    self.distinct = distinct
    self.order_by = order_by      # list of column specs e.g. ['col0', 'col1 desc'] (denotation form)
    self.limit = limit

  def key(self):
    return (self.pred, self.args, self.body, self.value, self.distinct, tuple(self.order_by or ()), self.limit)

  def replace(self, **kw):
    d = dict(pred=self.pred, args=self.args, body=self.body, value=self.value, distinct=self.distinct,
             order_by=self.order_by, limit=self.limit)
    d.update(kw)
    return Rule(**d)

  def is_distinct(self):
    return self.distinct or (isinstance(self.value, tuple) and self.value[0] == 'aggr')

  def is_agg(self):
    return any(isinstance(e, tuple) and e[0] == 'aggr' for _, e in self.args) or (isinstance(self.value, tuple) and self.value[0] == 'aggr')


def R(pred, *args, body=None, value=None, distinct=False, named=None, **kw):
  a = tuple((i, e) for i, e in enumerate(args)) + tuple((named or {}).items())
  return Rule(pred, a, body, value, distinct, **kw)


class Functor:
  def __init__(self, new, base, bindings):
    self.new = new; self.base = base; self.bindings = tuple(bindings)  # ((arg, value pred),...)


class Ann:
  def __init__(self, text):
    self.text = text


class Program:
  def __init__(self, stmts, engine='sqlite', type_checking=None):
    self.stmts = list(stmts); self.engine = engine; self.type_checking = type_checking

  def rules(self):
    return [s for s in self.stmts if isinstance(s, Rule)]

  def functors(self):
    return [s for s in self.stmts if isinstance(s, Functor)]

  def defined(self):
    out = []
    for s in self.stmts:
      n = s.pred if isinstance(s, Rule) else s.new if isinstance(s, Functor) else None
      if n and n not in out: out.append(n)
    return out

  def text(self):
    return render_program(self)


# ------------------------------------------------------------------------------------------- printer
def fmt_num(x):
  if isinstance(x, bool): return 'true' if x else 'false'
  if isinstance(x, float):
    r = repr(x)
    return '(%s)' % r if x < 0 else r
  return '(%d)' % x if x < 0 else '%d' % x


def fmt_str(s):
  return json.dumps(s, ensure_ascii=False)


def ex(e):
  t = e[0]
  if t == 'v': return e[1]
  if t == 'n': return fmt_num(e[1])
  if t == 's': return fmt_str(e[1])
  if t == 'b': return 'true' if e[1] else 'false'
  if t == 'null': return 'null'
  if t == 'bin': return '(%s %s %s)' % (ex(e[2]), e[1], ex(e[3]))
  if t == 'un': return '(%s%s)' % (e[1], ex(e[2]))
  if t == 'list': return '[%s]' % ', '.join(ex(x) for x in e[1])
  if t == 'rec': return '{%s}' % ', '.join(('%s:' % f[1]) if isinstance(f, tuple) else '%s: %s' % (f, ex(x)) for f, x in e[1])
  if t == 'fld': return '%s.%s' % (ex(e[1]), e[2])
  if t == 'elem': return 'Element(%s, %s)' % (ex(e[1]), ex(e[2]))
  if t == 'if':
    if len(e) > 4 and e[4] == 'flat' and e[3][0] == 'if':
      # documented chain form `if a then b else if c then d else e` (one implication with several if_then entries)
      inner = ex(e[3][:4] + ('flat',))
      return '(if %s then %s else %s' % (ex(e[1]), ex(e[2]), inner[1:])
    return '(if %s then %s else %s)' % (ex(e[1]), ex(e[2]), ex(e[3]))
  if t == 'call': return '%s(%s)' % (e[1], args_str(e[2]))
  if t == 'isnull': return '(%s is null)' % ex(e[1])
  if t == 'inx': return '(%s in %s)' % (ex(e[1]), ex(e[2]))
  if t == 'arrow': return '(%s -> %s)' % (ex(e[1]), ex(e[2]))
  if t == 'comb':
    op = e[1]
    if e[4] == 1:
      return '(combine %s= %s :- %s)' % (AGG_SUGAR.get(op, op), ex(e[2]), body_str(e[3]))
    return '%s{%s :- %s}' % (op, ex(e[2]), body_str(e[3]))
  raise ValueError(e)


def args_str(args):
  out = []
  for f, x in args:
    if isinstance(x, tuple) and x[0] == 'aggr':
      name = f if isinstance(f, str) else 'col%d' % f
      out.append('%s? %s= %s' % (name, AGG_SUGAR.get(x[1], x[1]), ex(x[2])))
    elif f is None or isinstance(f, int): out.append(ex(x))
    elif isinstance(f, tuple) and f[0] == 'short': out.append('%s:' % f[1])   # a:  (shorthand for a: a)
    else: out.append('%s: %s' % (f, ex(x)))
  return ', '.join(out)


def prop(p):
  t = p[0]
  if t == 'lit': return '%s(%s)' % (p[1], args_str(p[2]))
  if t == 'cmp': return ex(p[1])
  if t == 'eq': return '%s %s %s' % (ex(p[1]), p[3], ex(p[2]))
  if t == 'in': return '%s in %s' % (ex(p[1]), ex(p[2]))
  if t == 'not':
    if len(p[1]) == 1 and p[1][0][0] == 'lit': return '~' + prop(p[1][0])
    return '~(%s)' % body_str(p[1])
  if t == 'or': return '(%s)' % ' | '.join(body_str(b) for b in p[1])
  if t == 'imp': return '(%s => %s)' % (paren_body(p[1]), paren_body(p[2]))
  if t == 'aggeq': return '%s %s= (%s :- %s)' % (p[1], AGG_SUGAR.get(p[2], p[2]), ex(p[3]), body_str(p[4]))
  raise ValueError(p)


def paren_body(body):
  return body_str(body) if len(body) == 1 else '(%s)' % body_str(body)


def body_str(body):
  return ', '.join(prop(p) for p in body)


def rule_str(r):
  head = '%s(%s)' % (r.pred, args_str(r.args))
  if r.value is not None:
    if isinstance(r.value, tuple) and r.value[0] == 'aggr':
      head += ' %s= %s' % (AGG_SUGAR.get(r.value[1], r.value[1]), ex(r.value[2]))
    else:
      head += ' = %s' % ex(r.value)
  if r.distinct: head += ' distinct'
  if r.order_by: head += ' order_by(%s)' % ', '.join(json.dumps(c) for c in r.order_by)
  if r.limit is not None: head += ' limit(%d)' % r.limit
  if r.body is None: return head + ';'
  return '%s :- %s;' % (head, body_str(r.body))


def stmt_str(s):
  if isinstance(s, Rule): return rule_str(s)
  if isinstance(s, Functor): return '%s := %s(%s);' % (s.new, s.base, ', '.join('%s: %s' % (a, b if isinstance(b, str) else ex(b)) for a, b in s.bindings))
  if isinstance(s, Ann): return s.text
  raise ValueError(s)


def render_program(p):
  lines = []
  if p.engine:
    if p.type_checking is None: lines.append('@Engine("%s");' % p.engine)
    else: lines.append('@Engine("%s", type_checking: %s);' % (p.engine, 'true' if p.type_checking else 'false'))
  lines += [stmt_str(s) for s in p.stmts]
  return '\n'.join(lines) + '\n'


# ------------------------------------------------------------------------------------------- traversal
def evars(e, acc=None, nested=True):
  """Variables of an expression. nested=False: do not descend into combines."""
  if acc is None: acc = set()
  t = e[0]
  if t == 'v': acc.add(e[1])
  elif t in ('n', 's', 'b', 'null'): pass
  elif t == 'bin': evars(e[2], acc, nested); evars(e[3], acc, nested)
  elif t in ('un', 'isnull'): evars(e[2] if t == 'un' else e[1], acc, nested)
  elif t == 'list':
    for x in e[1]: evars(x, acc, nested)
  elif t == 'rec':
    for _, x in e[1]: evars(x, acc, nested)
  elif t == 'fld': evars(e[1], acc, nested)
  elif t in ('elem', 'inx', 'arrow'): evars(e[1], acc, nested); evars(e[2], acc, nested)
  elif t == 'if': evars(e[1], acc, nested); evars(e[2], acc, nested); evars(e[3], acc, nested)
  elif t == 'call':
    for _, x in e[2]: evars(x, acc, nested)
  elif t == 'aggr': evars(e[2], acc, nested)
  elif t == 'comb':
    if nested: evars(e[2], acc, nested); bvars(e[3], acc, nested)
  else: raise ValueError(e)
  return acc


def pvars(p, acc=None, nested=True):
  if acc is None: acc = set()
  t = p[0]
  if t == 'lit':
    for _, x in p[2]: evars(x, acc, nested)
  elif t == 'cmp': evars(p[1], acc, nested)
  elif t == 'eq': evars(p[1], acc, nested); evars(p[2], acc, nested)
  elif t == 'in': evars(p[1], acc, nested); evars(p[2], acc, nested)
  elif t == 'not':
    if nested: bvars(p[1], acc, nested)
  elif t == 'or':
    for b in p[1]: bvars(b, acc, nested)
  elif t == 'imp':
    if nested: bvars(p[1], acc, nested); bvars(p[2], acc, nested)
  elif t == 'aggeq':
    acc.add(p[1])
    if nested: evars(p[3], acc, nested); bvars(p[4], acc, nested)
  else: raise ValueError(p)
  return acc


def bvars(body, acc=None, nested=True):
  if acc is None: acc = set()
  for p in body: pvars(p, acc, nested)
  return acc


def emap(e, f):
  """Rebuild an expression bottom-up applying f to every node (f returns the replacement)."""
  t = e[0]
  if t in ('v', 'n', 's', 'b', 'null'): return f(e)
  if t == 'bin': return f(('bin', e[1], emap(e[2], f), emap(e[3], f)))
  if t == 'un': return f(('un', e[1], emap(e[2], f)))
  if t == 'isnull': return f(('isnull', emap(e[1], f)))
  if t == 'list': return f(('list', tuple(emap(x, f) for x in e[1])))
  if t == 'rec': return f(('rec', tuple((k, emap(x, f)) for k, x in e[1])))
  if t == 'fld': return f(('fld', emap(e[1], f), e[2]))
  if t in ('elem', 'inx', 'arrow'): return f((t, emap(e[1], f), emap(e[2], f)))
  if t == 'if': return f(('if', emap(e[1], f), emap(e[2], f), emap(e[3], f)) + tuple(e[4:]))
  if t == 'call': return f(('call', e[1], tuple((k, emap(x, f)) for k, x in e[2])))
  if t == 'aggr': return ('aggr', e[1], emap(e[2], f))
  if t == 'comb': return f(('comb', e[1], emap(e[2], f), bmap(e[3], f), e[4]))
  raise ValueError(e)


def pmap(p, f):
  t = p[0]
  if t == 'lit': return ('lit', p[1], tuple((k, emap(x, f)) for k, x in p[2]))
  if t == 'cmp': return ('cmp', emap(p[1], f))
  if t == 'eq': return ('eq', emap(p[1], f), emap(p[2], f), p[3])
  if t == 'in': return ('in', emap(p[1], f), emap(p[2], f))
  if t == 'not': return ('not', bmap(p[1], f))
  if t == 'or': return ('or', tuple(bmap(b, f) for b in p[1]))
  if t == 'imp': return ('imp', bmap(p[1], f), bmap(p[2], f))
  if t == 'aggeq':
    v = f(('v', p[1]))
    return ('aggeq', v[1], p[2], emap(p[3], f), bmap(p[4], f))
  raise ValueError(p)


def bmap(body, f):
  return tuple(pmap(p, f) for p in body)


def rename_vars(x, m, kind='body'):
  f = lambda e: ('v', m.get(e[1], e[1])) if e[0] == 'v' else e
  if kind == 'expr': return emap(x, f)
  if kind == 'prop': return pmap(x, f)
  return bmap(x, f)


def rule_map(r, f):
  """Apply an expression rewriting f everywhere in a rule."""
  def arg(e):
    return ('aggr', e[1], emap(e[2], f)) if isinstance(e, tuple) and e[0] == 'aggr' else emap(e, f)
  return r.replace(args=tuple((k, arg(e)) for k, e in r.args),
                   value=None if r.value is None else arg(r.value),
                   body=None if r.body is None else bmap(r.body, f))


def rule_vars(r):
  acc = set()
  for _, e in r.args: evars(e, acc)
  if r.value is not None: evars(r.value, acc)
  if r.body: bvars(r.body, acc)
  return acc
