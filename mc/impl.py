"""Driver of the real code: parse -> LogicaProgram -> FormattedPredicateSql -> SQLite, exactly the calls
logica.py makes.  Outcome classes of one run:
  ('rows', columns, rows) | ('sql', text) | ('diag', kind, message) | ('internal', exception type, message)
  | ('sqlerr', message)
"""
import os, sys, io, contextlib, json

REPO = None
_mods = {}


def setup(repo=None):
  global REPO
  REPO = repo or os.environ.get('VERIF_REPO', '/repo')
  if sys.path[0] != REPO:
    sys.path.insert(0, REPO)


def M(name):
  """Lazy import of a module of the repository under test."""
  if name not in _mods:
    if REPO is None: setup()
    import importlib
    with contextlib.redirect_stdout(io.StringIO()):  # concertina_lib prints when IPython is missing
      _mods[name] = importlib.import_module(name)
  return _mods[name]


def diag_classes():
  return (M('parser_py.parse').ParsingException, M('compiler.rule_translate').RuleCompileException,
          M('compiler.functors').FunctorError, M('type_inference.research.infer').TypeErrorCaughtException)


class CompileBudgetExceeded(BaseException):
  """One call into the implementation used more CPU time than the budget (the call does not terminate, or is exponentially slow)."""


# CPU seconds (user time of this process, so machine load does not matter) one call into the implementation may use. The slowest
# legitimate calls (iterative flat recursion plans) need about 70 s; ordinary compiles well under 1 s. After the first overrun in a
# process - the run already ends with a violation - the budget drops, so that a change that makes many inputs hang is still reported
# in bounded time instead of hanging the check.
BUDGET = [float(os.environ.get('VERIF_CALL_BUDGET_S', '400'))]
_armed = [False]


def quiet(f, *a, **k):
  """Call f with stdout/stderr captured (diagnostics print coloured text), under the CPU-time budget."""
  import signal, threading
  arm = not _armed[0] and threading.current_thread() is threading.main_thread()
  if arm:
    def on_timer(signum, frame):
      b = BUDGET[0]; BUDGET[0] = min(BUDGET[0], 3.0)
      raise CompileBudgetExceeded('the call used more than %d s of CPU time' % b)
    old = signal.signal(signal.SIGVTALRM, on_timer); signal.setitimer(signal.ITIMER_VIRTUAL, BUDGET[0]); _armed[0] = True
  try:
    with contextlib.redirect_stderr(io.StringIO()), contextlib.redirect_stdout(io.StringIO()):
      return f(*a, **k)
  finally:
    if arm:
      signal.setitimer(signal.ITIMER_VIRTUAL, 0); signal.signal(signal.SIGVTALRM, old); _armed[0] = False


def parse(text, import_root=None, file_name='main'):
  p = M('parser_py.parse')
  return p.ParseFile(text, import_root=import_root)


def classify_exception(e):
  if isinstance(e, diag_classes()):
    msg = str(e)
    try:
      if hasattr(e, 'rule_str'): msg += ' || ' + str(e.rule_str)
      if hasattr(e, 'location'): msg += ' || ' + str(e.location)
      if hasattr(e, 'functor_name'): msg += ' || ' + str(e.functor_name)
    except Exception:
      pass
    return ('diag', type(e).__name__, msg)
  return ('internal', type(e).__name__, str(e)[:300])


class Compiled:
  """One LogicaProgram, predicates compiled on demand (as RunMany / logica.py do per predicate)."""

  def __init__(self, text, flags=None, import_root=None):
    self.text = text; self.err = None; self.prog = None; self.rules = None
    u = M('compiler.universe')
    try:
      self.parsed = quiet(parse, text, import_root)
      self.rules = self.parsed['rule']
      self.prog = quiet(u.LogicaProgram, self.rules, user_flags=flags or {})
    except BaseException as e:
      if isinstance(e, (KeyboardInterrupt,)): raise
      self.err = classify_exception(e)

  def sql(self, pred):
    """-> ('script', preamble, defines_and_exports, main_sql, formatted) or an error outcome."""
    if self.err: return self.err
    try:
      formatted = quiet(self.prog.FormattedPredicateSql, pred)
      ex = self.prog.execution
      return ('script', ex.preamble, list(ex.defines_and_exports), ex.main_predicate_sql, formatted, ex)
    except BaseException as e:
      if isinstance(e, (KeyboardInterrupt,)): raise
      return classify_exception(e)


def compile_pred(text, pred, flags=None, import_root=None):
  return Compiled(text, flags, import_root).sql(pred)


class Db:
  """In-memory SQLite with Logica's UDFs (common.sqlite3_logica.SqliteConnect), pre-loaded tables."""

  def __init__(self, schema):
    # schema: {table: [columns]}
    self.schema = schema
    self.con = M('common.sqlite3_logica').SqliteConnect()
    for t, cols in schema.items():
      self.con.execute('create table %s(%s)' % (t, ', '.join(cols)))

  def load(self, db):
    # db: {table: [row tuples]}
    for t, cols in self.schema.items():
      self.con.execute('delete from %s' % t)
      rows = db.get(t, [])
      if rows:
        self.con.executemany('insert into %s values (%s)' % (t, ','.join('?' * len(cols))), [tuple(enc(v) for v in r) for r in rows])

  def run(self, script, via_concertina=None):
    """script: outcome of Compiled.sql. -> ('rows', cols, rows) | ('sqlerr', msg).
    Single-statement plans are executed like `logica.py run` (preamble, defines_and_exports, main); plans with
    iterations (or via_concertina=True) through the real concertina_lib.ExecuteLogicaProgram like run_in_terminal."""
    _, preamble, defines, main, _, ex = script
    self.statements = []
    try:
      try: self.con.execute('DETACH DATABASE logica_test')
      except Exception: pass
      if via_concertina or (via_concertina is None and ex.iterations):
        cl = M('common.concertina_lib')
        con = self.con; rec = self.statements
        def runner(sql, engine, is_final):
          rec.append(sql)
          if is_final:
            cur = con.execute(sql)
            return [d[0] for d in cur.description], cur.fetchall()
          con.executescript(sql)
        with contextlib.redirect_stdout(io.StringIO()):
          res = cl.ExecuteLogicaProgram([ex], runner, 'sqlite', display_mode='silent')
        cols, rows = res[ex.main_predicate]
        return ('rows', list(cols), list(rows))
      cur = self.con.cursor()
      for s in [preamble] + defines:
        if s and s.strip(): cur.executescript(s); self.statements.append(s)
      cur.execute(main)
      cols = [d[0] for d in cur.description]
      return ('rows', cols, cur.fetchall())
    except Exception as e:
      return ('sqlerr', '%s: %s' % (type(e).__name__, str(e)[:300]))

  def close(self):
    self.con.close()


def enc(v):
  """Python value -> SQLite storage as Logica's SQLite dialect represents it."""
  if isinstance(v, bool): return int(v)
  if isinstance(v, (list, tuple, dict)): return json.dumps(v)
  return v


# ---------------------------------------------------------------------------------------------------------
# Harness-side accelerator (documented in DESIGN 1): LogicaProgram.__init__ re-parses the unchanging dialect
# library text on every construction (0.10 s of a 0.13 s compile).  The first parse of a given library text in a
# worker is the real one; later calls with the *same text* (and the same parser selection / experimental-syntax
# switch) get a fresh unpickled copy of that result.  User programs are always parsed for real.  Not used by the
# checks that examine the parser or history-freeness themselves (C06, C12, C13, C15).
_LIBCACHE = {}
_ORIG_PARSEFILE = None


def accelerate_library_parse():
  global _ORIG_PARSEFILE
  import pickle
  if os.environ.get('VERIF_NO_LIBCACHE'): return
  p = M('parser_py.parse'); d = M('compiler.dialects')
  if _ORIG_PARSEFILE is not None: return
  libs = set()
  for name in list(getattr(d, 'DIALECTS', {})):
    try: libs.add(d.Get(name).LibraryProgram())
    except Exception: pass
  orig = p.ParseFile
  _ORIG_PARSEFILE = orig
  def ParseFile(content, *a, **k):
    if content in libs and not a and not k:
      key = (content, getattr(p, 'TOO_MUCH', None), os.environ.get('LOGICA_PARSER'))
      if key not in _LIBCACHE:
        _LIBCACHE[key] = pickle.dumps(orig(content))
      return pickle.loads(_LIBCACHE[key])
    return orig(content, *a, **k)
  p.ParseFile = ParseFile
