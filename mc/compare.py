"""Value normalisation and the comparison relations (DESIGN 2.3)."""
import json
from collections import Counter
from .refsem import LV, RV, BagV, SetV, OneOf, KBestV, ckey


def from_json(x):
  if isinstance(x, list): return LV(from_json(y) for y in x)
  if isinstance(x, dict): return RV(sorted(((k, from_json(v)) for k, v in x.items()), key=lambda kv: str(kv[0])))
  return x


def norm_got(v):
  """SQLite result value -> model value: JSON text of lists / records is decoded."""
  if isinstance(v, str) and v[:1] in '[{':
    try: return from_json(json.loads(v))
    except ValueError: return v
  if isinstance(v, float):
    return fl(v)
  return v


def fl(v):
  if v == int(v) and abs(v) < 1e15: return int(v)
  return float('%.9g' % v)


def norm_exp(v):
  if isinstance(v, float): return fl(v)
  if isinstance(v, bool): return int(v)
  if isinstance(v, BagV): return BagV(sorted((norm_exp(x) for x in v), key=ckey))
  if isinstance(v, SetV): return SetV(norm_exp(x) for x in v)
  if isinstance(v, OneOf): return OneOf(norm_exp(x) for x in v)
  if isinstance(v, KBestV): return v
  if isinstance(v, RV): return RV((f, norm_exp(x)) for f, x in v)
  if isinstance(v, LV): return LV(norm_exp(x) for x in v)
  if isinstance(v, tuple): return LV(norm_exp(x) for x in v)
  return v


def adapt(got, kind):
  """bring a got value into the shape of the expected column kind"""
  if isinstance(got, bool): got = int(got)
  if isinstance(got, LV):
    got = LV(adapt(x, None) for x in got)
    if kind is BagV: return BagV(sorted(got, key=ckey))
    if kind is SetV: return SetV(got)
    return got
  if isinstance(got, RV): return RV((f, adapt(x, None)) for f, x in got)
  return got


def compare_rows(exp_cols, exp_rows, got_cols, got_rows, ordered=False, check_names=True):
  """-> None if equal as multisets of column->value maps (sequence if ordered), else a short description."""
  if check_names and exp_cols and sorted(exp_cols) != sorted(got_cols):
    return 'columns %s, expected %s' % (got_cols, exp_cols)
  if len(exp_cols) != len(got_cols) and exp_cols:
    return 'columns %s, expected %s' % (got_cols, exp_cols)
  if exp_cols:
    perm = [got_cols.index(c) for c in exp_cols] if check_names else list(range(len(exp_cols)))
  else:
    perm = []   # zero-arity predicate: the single column `atom` is not asserted, only the number of rows
  E = [tuple(norm_exp(v) for v in r) for r in exp_rows]
  kinds = [None] * len(exp_cols)
  for r in E:
    for i, v in enumerate(r):
      if isinstance(v, (BagV, SetV)): kinds[i] = type(v)
  G = [tuple(adapt(norm_got(r[j]), kinds[i]) for i, j in enumerate(perm)) for r in got_rows]
  has_oneof = any(isinstance(v, (OneOf, KBestV)) for r in E for v in r)
  if not has_oneof:
    if ordered:
      if E == G: return None
    else:
      try:
        if Counter(E) == Counter(G): return None
      except TypeError:
        pass
    return 'rows %s, expected %s' % (show(G), show(E))
  # admissible-answer matching (ties of ArgMin/ArgMax)
  if len(E) != len(G): return 'rows %s, expected %s' % (show(G), show(E))
  def vmatch(e, g):
    if isinstance(e, KBestV): return e.admits(g)
    return g in e if isinstance(e, OneOf) else e == g
  def rmatch(er, gr): return all(vmatch(e, g) for e, g in zip(er, gr))
  if ordered:
    return None if all(rmatch(e, g) for e, g in zip(E, G)) else 'rows %s, expected %s' % (show(G), show(E))
  used = [False] * len(G)
  def bt(i):
    if i == len(E): return True
    for j, g in enumerate(G):
      if not used[j] and rmatch(E[i], g):
        used[j] = True
        if bt(i + 1): return True
        used[j] = False
    return False
  return None if bt(0) else 'rows %s, expected %s' % (show(G), show(E))


def show(rows):
  s = repr(sorted(rows, key=lambda r: tuple(ckey(x) for x in r)) if all(_sortable(r) for r in rows) else rows)
  return s if len(s) < 400 else s[:400] + '...'


def _sortable(r):
  try:
    for x in r: ckey(x)
    return True
  except Exception:
    return False
