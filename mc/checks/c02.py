"""C02 - aggregation, distinct and negation follow the documented semantics (SQLite)."""
import base64, pickle
from .. import impl, explore, semcheck, families, refsem
from . import c01

PID = 'C02'
LEVEL = 'model_checking'
TECHNIQUE = 'bounded-exhaustive enumeration of aggregation/combine/negation programs x all small databases (empty groups, ties, nulls), real pipeline on SQLite vs a reference evaluator'
ASSUMPTIONS = ['under-specified corners of DESIGN 2.4 are not compared: a key-less aggregating predicate over no solution, Count over no solution, element order of List/Set, tied ArgMin/ArgMax candidates (any admissible answer accepted)',
               'null only as aggregated input / is-null operand / pass-through column',
               'beyond the small grammars only by representatives: 145 databases with values -1, 0, 10, 0.5, and the WIDEAGG family (13-column grouped heads, 11 combines in one rule, 4 levels of combine / negation nesting, chains of 5 grouping predicates, groups of 6-36 members with duplicates and 2-digit values)']

_CASES = None


def cases(thorough):
  global _CASES
  if _CASES is None or _CASES[0] != thorough:
    _CASES = (thorough, list(families.c02_cases(thorough)))
  return _CASES[1]


def plan(ctx):
  n = len(cases(ctx.thorough))
  nsh = min(n, 192 if ctx.thorough else 96)
  return [('sem', ctx.thorough, i, nsh) for i in range(nsh)]


def work(task):
  _, thorough, shard, nsh = task
  cs = cases(thorough)
  h = Harness2()
  fam = {}
  for i in range(shard, len(cs), nsh):
    c = cs[i]
    fam[c.family] = fam.get(c.family, 0) + 1
    h.run_case(c, classify)
  res = h.result(); h.close()
  for k, v in fam.items(): res['stats']['family_' + k] = v
  for v in res['viol']:
    v['case']['pickle'] = base64.b64encode(pickle.dumps(c01.find(cs, v['case']['text']))).decode()
  return res


class Harness2(semcheck.Harness):
  def expected(self, case, pred, db, rules=None):
    cols, rows = super().expected(case, pred, db, rules)
    if case.info == 'keyless' and pred == 'T' and not rows:
      raise refsem.Unsupported('key-less aggregate over no solution (DESIGN 2.4)')
    return cols, rows


def has_op(case, ops):
  t = case.text()
  return any(('%s{' % o) in t or ('%s=' % o) in t for o in ops)


def classify(case, pred, db, exp, got, diff):
  """Narrow signatures for the two documented-vs-actual deviations of SQLite's List/Set (finding 6)."""
  if got[0] != 'rows': return None
  from ..compare import norm_got, norm_exp
  from ..refsem import LV, BagV, SetV
  if not has_op(case, ('List', 'Set')): return None
  cols = exp[0]
  if sorted(cols) != sorted(got[1]) or len(exp[1]) != len(got[2]): return None
  perm = [got[1].index(c) for c in cols]
  G = [tuple(norm_got(r[j]) for j in perm) for r in got[2]]
  E = [tuple(norm_exp(v) for v in r) for r in exp[1]]
  # phenomenon 1: every difference is "model null (no solution) vs implementation empty list"
  def rel(e, g):
    if e == g: return 'same'
    if e is None and isinstance(g, LV) and len(g) == 0: return 'empty'
    if isinstance(e, (BagV, SetV)) and isinstance(g, LV):
      gl = [x for x in g if x is not None]
      if isinstance(e, BagV) and sorted(gl, key=refsem.ckey) == list(e) and len(gl) < len(g): return 'nullkept'
      if isinstance(e, SetV) and set(gl) == set(e) and len(gl) < len(g): return 'nullkept'
      if isinstance(e, BagV) and sorted(g, key=refsem.ckey) == list(e): return 'same'
      if isinstance(e, SetV) and set(g) == set(e) and len(set(g)) == len(g): return 'same'
    if e is None and isinstance(g, LV) and all(x is None for x in g): return 'nullkept'
    return 'other'
  import itertools
  # rows may come in any order: try to pair rows greedily on the 'same/empty/nullkept' relation
  left = list(G); kinds = set()
  for er in E:
    found = None
    for gr in left:
      rs = [rel(e, g) for e, g in zip(er, gr)]
      if 'other' not in rs:
        found = (gr, rs); break
    if not found: return None
    left.remove(found[0]); kinds |= set(found[1])
  kinds.discard('same')
  if kinds == {'empty'}: return 'sqlite-List/Set-of-no-solution-is-[]-not-null'
  if kinds == {'nullkept'}: return 'sqlite-List/Set-keeps-null-inputs'
  if kinds == {'empty', 'nullkept'}: return 'sqlite-List/Set-keeps-null-inputs'
  return None


def coverage(ctx, merged):
  cov = c01.coverage(ctx, merged)
  cov['bounds'] = dict(db_rows_per_table=3 if ctx.thorough else 2, values=[1, 2], extra='3 tie databases, 4 null-bearing databases where null hygiene allows')
  return cov


def replay(ctx, case):
  c = pickle.loads(base64.b64decode(case['pickle']))
  h = Harness2()
  if 'db' in case: c.dbs = [case['db']]; c.fact_dbs = []
  c.preds = [case['pred']] if 'pred' in case else c.preds
  h.run_case(c, classify)
  r = h.result(); h.close()
  return r['viol']


LEVEL_TEXT = ('Every program of the AGGH (predicate-level aggregation incl. multi-body and two aggregated arguments), AGGE (aggregating expressions in three syntaxes, 0-2 '
              'correlated variables, sibling combines with clashing local names, nested combines, combines in heads/if/comparisons/injected predicates) and NEG (negated '
              'conjunctions, double negation, implication, negation inside combine and vice versa) grammars is run through the real pipeline on SQLite over all small databases '
              'incl. empty groups, ties and null-bearing value columns and compared with the reference evaluator.')
LEVEL_NOTE = ('Trusted: printer + reference evaluator incl. its scoping rule for combine/negation-local variables, SQLite. Bounded: bodies of <=3 literals, nesting <=2, <=2 rows/table '
              '(+ fixed tie/null/other-value databases and the WIDEAGG representatives). Known deviations of SQLite List/Set are listed in known_findings.json.')
