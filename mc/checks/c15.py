"""C15 - layout, comments and string contents never change what is parsed; spans are literal positions."""
import itertools, os, glob, json, re
from .. import impl, explore, parsers
from . import c06

PID = 'C15'
LEVEL = 'model_checking'
TECHNIQUE = 'exhaustive insertion of every layout-noise element at every token boundary, redundant parentheses around every expression span and every conjunct, every evil string content in every literal form; both parsers; trees compared modulo source-text annotations; span invariant on every node'
ASSUMPTIONS = ['token model: a predicate name sticks to its "(" (documented), dotted names, `..rest`, a negative number literal and `field?` are single tokens; keyword operators are the words in, is, is not, combine, else if, import, as',
               'noise is inserted additively (existing separators are kept)']

NOISE = [' ', '  ', '\n', '\t', '# c\n', '/* c */', '/* ; ( " */', ' /* :- | */ ', '/*/ c */', '/*//// b ////*/', '/**/', '/* * / */']
EVIL = [';', ',', ':-', '|', '(', ')', ']', '[', '{', '}', '#', '/*', '*/', '/* x */', ' in ', 'distinct', 'else', ' is ', '==', '~', ':=', '-->', 'import a.B', '# c', 'T(x) :- A(x);', "it's", '`', '..', '?', '=>',
        'combine', 'then', '->', '&&', '||', '@Ground(T)', '$', '%s', '{0}', ' ; ; ', '\\', 'a\\', '\\(', '\\)', 'C:\\d\\', '\\n']

KEYWORDS = [' else if ', ' is not ', ' in ', ' is ', 'combine ', 'else if', 'import ', ' as ', ' then ', ' else ', 'if ']


def toks(text):
  """tokens of the statement with the glued groups merged; -> list of strings whose concatenation is text"""
  raw = [t for t, _ in parsers.tokens(text)]
  out = []
  i = 0
  while i < len(raw):
    t = raw[i]
    nxt = raw[i + 1] if i + 1 < len(raw) else ''
    def is_id(x): return bool(re.match(r'[A-Za-z_@`0-9]', x)) and x[0] not in '"\''
    if out and not out[-1].isspace():
      prev = out[-1]
      glue = (
        (t in ('(', '[') and (is_id(prev[-1:]) or prev[-1:] in ')]`')) or          # call / subscript: name sticks to its bracket
        (t == '.' and is_id(prev[-1:])) or (prev[-1:] == '.' and is_id(t[:1])) or   # dotted names, record fields
        (prev == '..' and is_id(t[:1])) or                                        # ..rest
        (prev == '-' and re.match(r'[\d.]', t) and unary_position(out[:-1])) or   # negative number literal
        (t == '?' and is_id(prev[-1:])) or (t == ':' and is_id(prev[-1:]) and False))
      if glue:
        out[-1] = prev + t; i += 1; continue
    out.append(t); i += 1
  # keyword operators keep the spaces the language requires: merge  <space> word <space>  into one token
  text2 = ''.join(out)
  assert text2 == text
  merged = []
  j = 0
  while j < len(out):
    done = False
    for kw in KEYWORDS:
      # does kw start at the beginning of the concatenation of out[j:j+3] ?
      for span in (5, 3, 2):
        cand = ''.join(out[j:j + span])
        if cand == kw or (cand.startswith(kw) and False):
          merged.append(cand); j += span; done = True; break
      if done: break
    if not done:
      merged.append(out[j]); j += 1
  return merged


def unary_position(before):
  """the token after these is in operand position (so a following '-' is a sign, not a subtraction)"""
  for t in reversed(before):
    if t.isspace(): continue
    last = t[-1:]
    return not (re.match(r'[A-Za-z_0-9`"\')\]}]', last) is not None)
  return True


def rules_of(outcome):
  return json.dumps(parsers.strip_heritage(outcome[2]['rule']), sort_keys=True)


def strip_strings(node):
  if isinstance(node, list): return [strip_strings(x) for x in node]
  if isinstance(node, dict): return {k: ('<S>' if k == 'the_string' else strip_strings(v)) for k, v in node.items() if k not in ('expression_heritage', 'full_text')}
  return node


def spans(node, acc):
  if isinstance(node, list):
    for x in node: spans(x, acc)
  elif isinstance(node, dict):
    for k, v in node.items():
      if k == 'expression_heritage': acc.append(v)
      else: spans(v, acc)
  return acc


def statement_texts(text):
  """statements of the program after comment removal (what a span's heritage must be one of)"""
  p = impl.M('parser_py.parse')
  s = p.HeritageAwareString(p.RemoveComments(p.HeritageAwareString(text)))
  # (`F(x) --> e` is rewritten in place into `F(x)  =  e`, same length, before parsing: positions are preserved)
  return set(str(x).replace('-->', ' = ') for x in p.Split(s, ';')) | set(str(x) for x in p.Split(s, ';'))


def bases(thorough):
  out = [s for s in c06.EXTRA if not s.startswith('#') and s.strip()]
  out += ['T([], x) :- A(x), y == [], z == [[], [1]];', 'T(x) :- A(x, {}), y == {a: [], b: {}};']
  es = list(c06.exprs(2))
  for e in es[::(40 if thorough else 140)]:
    out.append('T(%s) :- A(x), z == %s;' % (e, e))
  return out


def plan(ctx):
  impl.setup(ctx.repo); parsers.setup_cpp()
  bs = bases(ctx.thorough)
  tasks = [('noise', i, ctx.thorough) for i in range(len(bs))]
  tasks += [('strings', i) for i in range(6)]
  files = sorted(glob.glob(os.path.join(ctx.repo, 'integration_tests', '*.l')))
  for ch in explore.shards(files, 8): tasks.append(('spans', ch))
  for i in range(8): tasks.append(('wide', i, 8))
  return tasks


def wide_texts():
  """long / deeply nested statements and text outside ASCII ahead of the spans (a byte offset differs from a character offset there)"""
  out = list(c06.wide_inputs())
  out += ['# \u00e9\u00e9\u00e9 \u65e5\u672c\nT(x + 1, "\u00fc") :- A(x), x > 2, y == [x, 1], B("\u00e9", y);\nU(z * 2) :- T(z, "\u00e9\u00e9"), z in [1, 2 + 3];',
          'T("\U0001F600", x + 1) :- A(x, "\U0001F600\U0001F600"), x * 2 > 3;', '/* \u65e5\u672c\u8a9e */ T(x) :- A(x), (x + 1) * 2 == 4 | B(x), ~C(x - 1);',
          'T(`\u00e9`: x + 1, b: x * 2) :- A(x);', '\r\n'.join(['T(x + 1) :- A(x),', '  x > 2,', '  B(x * 3);', 'U(y - 1) :- T(y);']), 'T(x\t+\t1) :-\tA(x),\tx\t>\t2;']
  return out


def work(task):
  stats = dict(parses=0, comparisons=0, noise_variants=0, paren_variants=0, string_variants=0, spans_checked=0, statements=0); viol = []; samples = []
  def bad(sig, what, text, base):
    viol.append(dict(sig=sig, what='%s | %r (from %r)' % (what, text[:200], base[:120]), case=dict(text=text, base=base)))
  def both(text):
    stats['parses'] += 2
    return parsers.parse_with('PY', text), parsers.parse_with('CPP', text)
  def same_as(base_text, base_rules, variant, kind, canon=rules_of):
    for mode, o in zip(('py', 'cpp'), both(variant)):
      stats['comparisons'] += 1
      if o[0] != 'ok':
        sig = '%s-rejected/%s' % (kind, mode)
        if kind == 'noise' and keyword_adjacent(base_text, variant): sig = 'keyword-operator-requires-literal-spaces/%s' % mode
        bad(sig, '%s parser rejects the variant: %s' % (mode, o[1:3]), variant, base_text)
      elif canon(o) != base_rules[mode]:
        sig = '%s-changes-parse/%s' % (kind, mode)
        if kind == 'parentheses' and re.search(r'==[^,;|]*==', base_text): sig = 'chained-equality-proposition-parenthesised/%s' % mode
        bad(sig, '%s parser builds different rules' % mode, variant, base_text)
  if task[0] == 'noise':
    base = bases(task[2])[task[1]]
    o = both(base)
    if o[0][0] != 'ok' or o[1][0] != 'ok': return dict(stats=stats, viol=[], samples=[])
    stats['statements'] += 1
    base_rules = dict(py=rules_of(o[0]), cpp=rules_of(o[1]))
    T = toks(base)
    # 1. layout noise at every token boundary (every single insertion; pairs in thorough)
    bounds = list(range(0, len(T) + 1))
    for i in bounds:
      for nz in NOISE:
        v = ''.join(T[:i]) + nz + ''.join(T[i:])
        stats['noise_variants'] += 1
        same_as(base, base_rules, v, 'noise')
    if task[2]:
      for i, j in itertools.combinations(bounds, 2):
        for nz1, nz2 in (('\n', '# c\n'), ('/* c */', '\t'), (' ', '\n')):
          v = ''.join(T[:i]) + nz1 + ''.join(T[i:j]) + nz2 + ''.join(T[j:])
          stats['noise_variants'] += 1
          same_as(base, base_rules, v, 'noise')
    # 2. trailing semicolons
    for tail in (';', ';;', ' ;\n;'):
      stats['noise_variants'] += 1
      same_as(base, base_rules, base + tail, 'semicolon')
    # 3. redundant parentheses around every expression span (spans taken from the parse itself) ...
    seen = set()
    for h in spans(o[0][2]['rule'], []):
      try: a, b, her = h.start, h.stop, str(h.heritage)
      except AttributeError: continue
      idx = base.find(her)
      if idx < 0 or (a, b) in seen or not str(h).strip(): continue
      seen.add((a, b))
      if wrappable(her, a, b):
        for l, r in (('(', ')'), ('((', '))'), ('( ', ' )'), ('( (', ') )'), ('(\n  (', ')\n)'), ('( ( ', ' ) )')):
          v = base[:idx + a] + l + base[idx + a:idx + b] + r + base[idx + b:]
          stats['paren_variants'] += 1
          same_as(base, base_rules, v, 'parentheses')
    # ... and around every top-level conjunct of every rule body
    for st, body_start, parts in conjuncts(base):
      for k, (a, b) in enumerate(parts):
        if not base[a:b].strip(): continue
        for l, r in (('(', ')'), ('((', '))'), ('( (', ') )'), ('(\n(', ')\n)')):
          v = base[:a] + l + base[a:b] + r + base[b:]
          stats['paren_variants'] += 1
          same_as(base, base_rules, v, 'parentheses')
    if task[1] == 5: samples.append(dict(base=base, tokens=T, noise=NOISE))
  elif task[0] == 'strings':
    # every evil content in every literal form, in every string position of a few statements
    hosts = ['T("%s") :- A("%s");', 'T(x) :- A(x), y == ["%s", x], z == {f: "%s"};', 'T(x ++ "%s") :- A(x), x != "%s";', '@OrderBy(T, "%s");\nT(x) :- A(x, "%s");',
             'T(x) :- A(x), ~B("%s"), z == Sum{1 :- C("%s")};', 'T(x) order_by("%s") limit(1) :- A(x), x in ["%s"];']
    host = hosts[task[1]]
    ref = both(host.replace('%s', 'abc'))
    if ref[0][0] == 'ok' and ref[1][0] == 'ok':
      base_rules = dict(py=json.dumps(strip_strings(ref[0][2]['rule']), sort_keys=True), cpp=json.dumps(strip_strings(ref[1][2]['rule']), sort_keys=True))
      canon = lambda o: json.dumps(strip_strings(o[2]['rule']), sort_keys=True)
      for ev in EVIL:
        forms = []
        if '"' not in ev and '\n' not in ev: forms.append('"%s"' % ev)
        if "'" not in ev and '\\' not in ev: forms.append("'%s'" % ev)     # the single-quoted form interprets backslash escapes
        if '"""' not in ev: forms.append('"""%s"""' % ev)
        for f in forms:
          v = host.replace('"%s"', f)
          stats['string_variants'] += 1
          same_as(host, base_rules, v, 'string-content', canon)
          # and the content must come back literally
          o = parsers.parse_with('PY', v); stats['parses'] += 1
          if o[0] == 'ok':
            got = set(find_strings(o[2]['rule']))
            if ev not in got: bad('string-content-altered/py', 'literal %r not found among parsed strings %r' % (ev, sorted(got)[:4]), v, host)
      if task[1] == 0: samples.append(dict(host=host, evil_strings=EVIL[:8]))
  elif task[0] == 'wide':
    for k, text in enumerate(wide_texts()):
      if k % task[2] != task[1]: continue
      o = both(text)
      for mode, oo in zip(('py', 'cpp'), o):
        if oo[0] != 'ok': continue
        stats['statements'] += 1
        check_spans(oo[2]['rule'], text, mode, 'wide', stats, bad)
      if o[0][0] == 'ok' and o[1][0] == 'ok' and parsers.strip_heritage(o[0][2]['rule']) == parsers.strip_heritage(o[1][2]['rule']): compare_spans(o[0][2]['rule'], o[1][2]['rule'], text, 'wide', stats, bad)
  else:
    # statements of every .l file of the repository (imported rules are anchored in the file they come from)
    corpus = set()
    for lf in glob.glob(os.path.join(impl.REPO, '**', '*.l'), recursive=True):
      try: corpus |= {x.strip() for x in statement_texts(open(lf).read())}
      except Exception: pass
    for f in task[1]:
      text = open(f).read()
      for mode in ('PY', 'CPP'):
        o = parsers.parse_with(mode, text, import_root=impl.REPO); stats['parses'] += 1
        if o[0] != 'ok': continue
        check_spans(o[2]['rule'], text, mode.lower(), os.path.basename(f), stats, bad, imported=True, corpus=corpus)
    # spans of the generated statements too
  if task[0] == 'noise' and stats['statements']:
    for mode, oo in zip(('py', 'cpp'), o):
      check_spans(oo[2]['rule'], base, mode, 'generated', stats, bad)
    if parsers.strip_heritage(o[0][2]['rule']) == parsers.strip_heritage(o[1][2]['rule']): compare_spans(o[0][2]['rule'], o[1][2]['rule'], base, 'generated', stats, bad)
  by = {}
  for v in viol: by.setdefault(v['sig'], []).append(v)
  out = []
  for s, vs in by.items():
    vs.sort(key=lambda v: len(v['case']['text'])); out.extend(vs[:2]); stats['viol_' + s] = len(vs)
  return dict(stats=stats, viol=out, samples=samples)


def keyword_adjacent(base, variant):
  """the variant differs from base by whitespace/comment noise that touches a keyword operator's required space"""
  for kw in (' in', 'in ', ' is', 'is ', 'not ', 'combine', 'else', ' if', 'if ', 'import', ' as', 'as ', 'then', ' then', 'then '):
    pass
  # find the insertion point
  i = 0
  while i < len(base) and i < len(variant) and base[i] == variant[i]: i += 1
  left = base[max(0, i - 9):i]; right = base[i:i + 9]
  words = ('in', 'is', 'not', 'combine', 'else', 'if', 'import', 'as', 'then')
  lw = re.search(r'(\w+)\s?$', left); rw = re.match(r'\s?(\w+)', right)
  return bool((lw and lw.group(1) in words) or (rw and rw.group(1) in words))


def find_strings(node, acc=None):
  acc = [] if acc is None else acc
  if isinstance(node, list):
    for x in node: find_strings(x, acc)
  elif isinstance(node, dict):
    for k, v in node.items():
      if k == 'the_string' and isinstance(v, str): acc.append(v)
      else: find_strings(v, acc)
  return acc


def wrappable(her, a, b):
  """an expression span may be wrapped unless it is a predicate-literal / field-name position (no expression there)"""
  s = her[a:b]
  before = her[:a].rstrip(); after = her[b:].lstrip()
  if re.match(r'^\s*(\+|\w+)=\s', s): return False
  if re.match(r'^(\+|\w+)=(?!=)', after): return False
  if re.search(r'(order_by|limit)\s*\([^)]*$', her[:a]): return False   # denotation arguments are column specs, not part of the documented expression grammar   # the variable of `x Op= (...)` is not an expression position     # 'Op= expr' of an aggregating head is reported as one span; it is not an expression
  if after[:1] in ('(', ':', '?') and re.match(r'^[\w@`.]+$', s.strip()): return False      # predicate name / field name
  if re.match(r'^@?[A-Z]\w*$', s.strip()) and (before[-1:] in ('(', ',', ':') or before.endswith(':=')): return False  # predicate literal argument
  if before.endswith('..') or s.strip().startswith('..'): return False
  if s.strip() and s.strip()[0].isdigit() is False and before[-1:] == '.': return False   # field after a dot
  return True


def conjuncts(text):
  """-> [(statement, body offset, [(start, stop) of every top-level conjunct])] using a bracket/string aware scan"""
  out = []
  depth = 0; i = 0; n = len(text); in_s = None; start_stmt = 0
  marks = []
  while i < n:
    c = text[i]
    if in_s:
      if text.startswith(in_s, i): i += len(in_s); in_s = None; continue
      i += 1; continue
    if text.startswith('"""', i): in_s = '"""'; i += 3; continue
    if c in '"\'`': in_s = c; i += 1; continue
    if c == '#':
      while i < n and text[i] != '\n': i += 1
      continue
    if text.startswith('/*', i):
      j = text.find('*/', i + 2); i = n if j < 0 else j + 2; continue
    if c in '([{': depth += 1
    elif c in ')]}': depth -= 1
    elif depth == 0 and text.startswith(':-', i): marks.append(('body', i + 2))
    elif depth == 0 and c == ',': marks.append(('comma', i))
    elif depth == 0 and c == '|': marks.append(('bar', i))
    elif depth == 0 and c == ';':
      marks.append(('end', i));
    i += 1
  marks.append(('end', n))
  body = None; commas = []; bar = False
  for kind, pos in marks:
    if kind == 'body': body = pos; commas = []; bar = False
    elif kind == 'comma' and body is not None: commas.append(pos)
    elif kind == 'bar' and body is not None: bar = True
    elif kind == 'end':
      if body is not None and not bar:
        pts = [body] + [c + 1 for c in commas] + []
        ends = commas + [pos]
        parts = []
        for a, b in zip(pts, ends):
          seg = text[a:b]
          a2 = a + (len(seg) - len(seg.lstrip())); b2 = b - (len(seg) - len(seg.rstrip()))
          parts.append((a2, b2))
        out.append((None, body, parts))
      body = None
  return out


def check_spans(rules, text, mode, where, stats, bad, imported=False, corpus=None):
  stmts = None
  for h in spans(rules, []):
    stats['spans_checked'] += 1
    try:
      her, a, b = str(h.heritage), h.start, h.stop
    except AttributeError:
      bad('span-not-heritage-aware/%s' % mode, 'span %r carries no position' % str(h)[:60], text, where); continue
    if her[a:b] != str(h):
      bad('span-text-mismatch/%s' % mode, 'heritage[%d:%d]=%r but span text is %r' % (a, b, her[a:b][:60], str(h)[:60]), text, where); continue
    if stmts is None: stmts = corpus if corpus is not None else statement_texts(text)
    if her.strip().startswith('@CompileAsUdf('): continue     # rule synthesised by `-->`, it has no source text of its own
    if her.strip() not in {s.strip() for s in stmts} and not any(her.strip() in s for s in stmts):
      bad('span-not-anchored-in-a-statement/%s' % mode, 'heritage %r is not a statement of the program' % her[:80], text, where)


def compare_spans(py_rules, cpp_rules, text, where, stats, bad):
  """The two parsers build the same tree, so they must attach the same span (statement, start, stop) to the same node: the Python parser's
  spans are slices of the text by construction, the C++ parser's come through a byte-offset to character-offset conversion."""
  def walk(node, acc):
    if isinstance(node, list):
      for x in node: walk(x, acc)
    elif isinstance(node, dict):
      for k in sorted(node, key=str):
        if k == 'expression_heritage': acc.append(node[k])
        else: walk(node[k], acc)
    return acc
  a, b = walk(py_rules, []), walk(cpp_rules, [])
  if len(a) != len(b): return
  for x, y in zip(a, b):
    stats['spans_checked'] += 1
    try: kx, ky = (str(x.heritage), x.start, x.stop), (str(y.heritage), y.start, y.stop)
    except AttributeError: continue
    if kx != ky:
      bad('span-differs-between-parsers', 'python [%d:%d]=%r, c++ [%d:%d]=%r' % (kx[1], kx[2], str(x)[:50], ky[1], ky[2], str(y)[:50]), text, where); return


def coverage(ctx, merged):
  s = merged['stats']
  return dict(
    states=s.get('noise_variants', 0) + s.get('paren_variants', 0) + s.get('string_variants', 0), transitions=s.get('parses', 0), traces_validated_against_impl=s.get('comparisons', 0) + s.get('spans_checked', 0),
    samples=merged['samples'], exhaustive=True, evaluations=s.get('comparisons', 0), distinct_nontrivial=s.get('noise_variants', 0) + s.get('paren_variants', 0) + s.get('string_variants', 0),
    rule='state = one variant text (noise insertion / redundant parentheses / string content); transition = one parse by one parser; every variant must give the base statement\'s rules with source annotations removed',
    base_statements=s.get('statements', 0), noise_variants=s.get('noise_variants', 0), parenthesis_variants=s.get('paren_variants', 0), string_variants=s.get('string_variants', 0), spans_checked=s.get('spans_checked', 0),
    bounds=dict(noise=NOISE, insertions='every single boundary (thorough: plus every pair of boundaries for three noise pairs)', evil_strings=len(EVIL), parentheses='1 and 2 levels around every expression span and every top-level conjunct'), cap_hit=False)


def replay(ctx, case):
  impl.setup(ctx.repo); parsers.setup_cpp()
  base, text = case['base'], case['text']
  out = []
  o = (parsers.parse_with('PY', base), parsers.parse_with('CPP', base))
  if o[0][0] != 'ok' or o[1][0] != 'ok': return out
  for mode, ob, ov in zip(('py', 'cpp'), o, (parsers.parse_with('PY', text), parsers.parse_with('CPP', text))):
    if ov[0] != 'ok' or rules_of(ov) != rules_of(ob):
      if json.dumps(strip_strings(ov[2]['rule'] if ov[0] == 'ok' else []), sort_keys=True) != json.dumps(strip_strings(ob[2]['rule']), sort_keys=True):
        out.append(dict(sig='replayed-difference/%s' % mode, what='variant still parses differently', case=case))
  return out


LEVEL_TEXT = ('For ~100 base statements covering every statement form, every one of 8 layout-noise elements (spaces, newline, tab, # comment, /* */ comments containing separators and quotes) is inserted at '
              'every token boundary (thorough: also pairs), trailing semicolons are added, every expression span reported by the parser and every top-level conjunct is wrapped in one and two levels '
              'of redundant parentheses, and every string literal of six host statements is replaced by each of 40 evil contents in every literal form able to hold it; both parsers must produce the '
              'base rules (modulo source annotations / string values) and return string contents literally. For every node of the generated statements and of the 135 integration programs the span '
              'invariant heritage[start:stop] == text is checked, and spans of generated statements must be anchored in a statement of the program.')
LEVEL_NOTE = 'Trusted: the token model (what counts as one token) stated in ASSUMPTIONS; JSON canonicalisation. Bounded: single (thorough: double) insertions, 100 base statements.'
