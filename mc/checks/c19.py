"""C19 - invalid programs are rejected with a diagnostic, never compiled to wrong SQL."""
import re
from .. import impl, explore, semcheck, families, refsem, lang, parsers, functor_model
from ..lang import R, Rule, Lit, V, N, Bin, Cmp, Eq, Not, Comb, Aggr, Ann, Program, Functor
from ..semcheck import Case

PID = 'C19'
LEVEL = 'model_checking'
TECHNIQUE = 'exhaustive application of a fixed catalogue of single-point corruption operators at every site of generated valid programs; rejection asserted only where the model proves the corrupted program invalid; outcome class and message checked'
ASSUMPTIONS = ['one corruption per program; invalidity is decided by the reference model (range restriction by its scheduler, aggregation/distinct coherence, base case, functor dependencies), corruptions it cannot prove invalid are not asserted']

FRESH = 'w'
_CASES = None


def base_cases(thorough):
  step = 2 if thorough else 9
  out = []
  for gen in (families.c01_cases(False), families.c02_cases(False)):
    by = {}
    for c in gen:
      if c.family in ('EXPR',): continue
      by.setdefault(c.family, []).append(c)
    for fam, cs in by.items(): out += cs[::step]
  for c in families.c03_cases(False):
    if c.info['depth'] == 2 or (c.info['depth'] == 8 and c.info['shape'] in ('tc_right', 'counter_set')): out.append(c)
  for i, c in enumerate(families.c04_cases(False)):
    if i % (40 if thorough else 160) == 0:
      try: functor_model.expand(c.program)
      except functor_model.FunctorArgumentError: continue     # only valid programs are corrupted
      out.append(c)
  return out


def cases(thorough):
  global _CASES
  if _CASES is None or _CASES[0] != thorough:
    _CASES = (thorough, base_cases(thorough))
  return _CASES[1]


def replace_var_once(e, old, new, counter):
  """replace the counter[0]-th occurrence of variable old in expression e"""
  def f(x):
    if x[0] == 'v' and x[1] == old:
      counter[0] -= 1
      if counter[0] == -1: return ('v', new)
    return x
  return lang.emap(e, f)


def corruptions(case):
  """-> list of (operator, corrupted Program, expectation, names that the diagnostic should mention)
  expectation: 'invalid' (must be rejected) | None (model cannot prove it invalid: not asserted)"""
  prog = case.program; stmts = prog.stmts
  out = []
  def with_stmt(i, new): return Program(stmts[:i] + ([new] if new is not None else []) + stmts[i + 1:], prog.engine, prog.type_checking)
  for i, s in enumerate(stmts):
    if not isinstance(s, Rule): continue
    # fresh variable in the head
    for k, (f, e) in enumerate(s.args):
      inner = e[2] if e[0] == 'aggr' else e
      for v in sorted(lang.evars(inner, nested=False)):
        cnt = [0]
        new_inner = replace_var_once(inner, v, FRESH, cnt)
        ne = ('aggr', e[1], new_inner) if e[0] == 'aggr' else new_inner
        out.append(('unbound-head-variable', with_stmt(i, s.replace(args=s.args[:k] + ((f, ne),) + s.args[k + 1:])), 'invalid', [FRESH], s.pred))
        break
    if s.body:
      for j, p in enumerate(s.body):
        # fresh variable in a comparison
        if p[0] == 'cmp' and not (p[1][0] == 'bin' and p[1][1] == '=='):     # `w == e` with w unbound is an assignment, not an error
          for v in sorted(lang.evars(p[1], nested=False)):
            cnt = [0]
            out.append(('unbound-comparison-variable', with_stmt(i, s.replace(body=s.body[:j] + (('cmp', replace_var_once(p[1], v, FRESH, cnt)),) + s.body[j + 1:])), 'invalid', [FRESH], s.pred))
            break
        # fresh variable inside a negated comparison
        if p[0] == 'not':
          for jj, q in enumerate(p[1]):
            if q[0] == 'cmp' and not (q[1][0] == 'bin' and q[1][1] == '=='):
              for v in sorted(lang.evars(q[1], nested=False)):
                cnt = [0]
                nb = p[1][:jj] + (('cmp', replace_var_once(q[1], v, FRESH, cnt)),) + p[1][jj + 1:]
                out.append(('unbound-variable-in-negation', with_stmt(i, s.replace(body=s.body[:j] + (('not', nb),) + s.body[j + 1:])), 'invalid', [FRESH], s.pred))
                break
          # a negated comparison over an unbound variable added to the negation
          nb = p[1] + (Cmp('>', V(FRESH), N(3)),)
          out.append(('unbound-variable-in-negation', with_stmt(i, s.replace(body=s.body[:j] + (('not', nb),) + s.body[j + 1:])), 'invalid', [FRESH], s.pred))
        # delete a positive literal (maybe the only binder of a head / comparison variable)
        if p[0] == 'lit' and len(s.body) >= 1:
          out.append(('delete-literal', with_stmt(i, s.replace(body=s.body[:j] + s.body[j + 1:] if len(s.body) > 1 else None) if len(s.body) > 1 else s.replace(body=(Cmp('==', N(1), N(1)),))), None, [], s.pred))
    # drop distinct from an aggregating head
    if s.distinct and s.is_agg():
      out.append(('aggregation-without-distinct', with_stmt(i, s.replace(distinct=False)), 'invalid', [s.pred]))
  # inconsistent distinct among the rules of one predicate
  by = {}
  for i, s in enumerate(stmts):
    if isinstance(s, Rule): by.setdefault(s.pred, []).append(i)
  for pred, idx in by.items():
    if len(idx) >= 2 and not any(stmts[i].is_agg() or (stmts[i].value is not None and stmts[i].value[0] == 'aggr') for i in idx):
      i = idx[-1]
      out.append(('inconsistent-distinct', with_stmt(i, stmts[i].replace(distinct=not stmts[i].distinct)), 'invalid', [pred]))
  # recursion without a base case: delete every non-recursive rule of a recursive predicate
  ev = refsem.Evaluator(prog.rules(), {})
  for pred in by:
    comp = ev.component(pred)
    if comp and len(comp) == 1:
      keep = []
      for i, s in enumerate(stmts):
        if isinstance(s, Rule) and s.pred == pred:
          single = refsem.Evaluator([s], {})
          if pred not in single.deps(pred): continue      # a base rule: drop it
        keep.append(s)
      if len(keep) < len(stmts) and any(isinstance(s, Rule) and s.pred == pred for s in keep):
        out.append(('recursion-without-base-case', Program(keep, prog.engine, prog.type_checking), 'invalid', list(prog.defined())))   # the predicate proven empty may be the offender itself or one built from it
  # functor applied to a predicate it does not depend on
  for i, s in enumerate(stmts):
    if isinstance(s, Functor):
      out.append(('functor-argument-not-a-dependency', with_stmt(i, Functor(s.new, s.base, s.bindings + (('Zzz9', 'A1'),))), 'invalid', ['Zzz9']))
      break
  # annotation of a missing predicate
  for ann in ('@OrderBy(Nope9, "col0");', '@Limit(Nope9, 1);', '@NoInject(Nope9);', '@With(Nope9);', '@NoWith(Nope9);', '@Recursive(Nope9, 3);'):
    out.append(('annotation-of-missing-predicate', Program(stmts + [Ann(ann)], prog.engine, prog.type_checking), 'invalid', ['Nope9']))
    # ... and the same after a valid annotation of the same kind (the check must not stop at the first good subject)
    good = ann.replace('Nope9', case.preds[0])
    if ann.startswith('@Recursive') and any(isinstance(st, Ann) and st.text.startswith('@Recursive') for st in stmts): continue     # a second @Recursive of one predicate is itself an error
    out.append(('annotation-of-missing-predicate', Program(stmts + [Ann(good), Ann(ann)], prog.engine, prog.type_checking), 'invalid', ['Nope9']))
  return out


def model_invalid(case, prog, pred):
  """does the reference model prove the corrupted program invalid for this predicate?"""
  try:
    rules = functor_model.expand(prog)
  except functor_model.FunctorArgumentError:
    return True
  tables = {t: (cols, [tuple(1 for _ in cols)]) for t, cols in semcheck.SCHEMAS[case.schema].items()}
  try:
    refsem.Evaluator(rules, tables, depth=1).rows(pred)
    return False
  except refsem.Unsafe:
    return True
  except refsem.Unsupported:
    return None
  except (TypeError, ValueError, KeyError, IndexError, AttributeError):
    return None      # the model is run on one all-ones row: a value of another kind than the operation expects is not a verdict on the program


def text_corruptions(text):
  """delete or duplicate one bracket / quote token"""
  toks = [t for t, _ in parsers.tokens(text)]
  for i, t in enumerate(toks):
    if t in ('(', ')', '[', ']', '{', '}'):
      yield 'delete-bracket', ''.join(toks[:i] + toks[i + 1:])
      yield 'duplicate-bracket', ''.join(toks[:i + 1] + toks[i:])
    elif len(t) >= 2 and t[0] in '"\'' and t[-1] == t[0] and not t.startswith('"""'):
      yield 'delete-quote', ''.join(toks[:i] + [t[1:]] + toks[i + 1:])
      yield 'delete-quote', ''.join(toks[:i] + [t[:-1]] + toks[i + 1:])


def plan(ctx):
  n = len(cases(ctx.thorough))
  nsh = min(n, 128)
  return [('corrupt', ctx.thorough, i, nsh) for i in range(nsh)] + [('udf',)]


# Unbound variables in helpers that are injected into the body of a `-->` function (compiled on the engines that have functions): the
# helper's variable must not be taken for bound because the function has a parameter of the same name.
UDF_PROGRAMS = [
  ('Scale(a) = a * k;\nF(k) --> Scale(k + 1);\nT(F(x)) :- A(x);', 'invalid', ['k']),
  ('Near(a) :- a < k + 1;\nF(k, a) --> (if Near(a) then 1 else 0);\nT(F(x, x)) :- A(x);', 'invalid', ['k']),
  ('Scale(a, k) = a * k;\nF(k) --> Scale(k + 1, k);\nT(F(x)) :- A(x);', 'valid', []),
  ('Scale(a) = a * 2;\nF(k) --> Scale(k + 1);\nT(F(x)) :- A(x);', 'valid', []),
  ('F(k) --> k + w;\nT(F(x)) :- A(x);', 'invalid', ['w']),
]


def work_udf():
  stats = dict(corrupted=0, asserted=0, comparisons=0, compiles=0, not_asserted=0, base_programs=0); viol = []
  for dialect in ('bigquery', 'psql'):
    for body, expect, names in UDF_PROGRAMS:
      text = '@Engine("%s");\nA(1); A(2);\n%s\n' % (dialect, body)
      out = impl.Compiled(text).sql('T'); stats['compiles'] += 1; stats['asserted'] += 1; stats['comparisons'] += 1; stats['corrupted'] += 1
      if expect == 'invalid' and out[0] == 'script':
        viol.append(dict(sig='invalid-program-compiled/unbound-variable-in-helper-of-a-function', what='SQL was produced although %s is unbound | %s' % (names, semcheck.oneline(text)), case=dict(text=text, operator='udf')))
      elif expect == 'invalid' and out[0] != 'diag':
        viol.append(dict(sig='internal-error/udf/%s' % out[1], what='rejected with %s instead of a diagnostic | %s' % (out[1], semcheck.oneline(text)), case=dict(text=text, operator='udf')))
      elif expect == 'valid' and out[0] != 'script':
        viol.append(dict(sig='valid-function-program-rejected/%s' % dialect, what='%s %s | %s' % (out[1], out[2][:120], semcheck.oneline(text)), case=dict(text=text, operator='udf')))
  return dict(stats=stats, viol=viol, samples=[], keys=dict(outcomes=set()))


def strip_colors(s): return re.sub(r'\x1b\[[0-9;]*m', '', s)


def work(task):
  if task[0] == 'udf': return work_udf()
  _, thorough, shard, nsh = task
  impl.accelerate_library_parse()
  cs = cases(thorough)
  stats = dict(corrupted=0, asserted=0, comparisons=0, compiles=0, not_asserted=0, base_programs=0); viol = []; kinds = {}; samples = []; outcomes = set()
  def bad(sig, what, text, op):
    viol.append(dict(sig=sig, what='%s | %s' % (what, semcheck.oneline(text)[:300]), case=dict(text=text, operator=op)))
  for i in range(shard, len(cs), nsh):
    c = cs[i]; stats['base_programs'] += 1
    for cor in corruptions(c):
      op, prog, expect, names = cor[:4]; corrupted_pred = cor[4] if len(cor) > 4 else None
      text = prog.text()
      stats['corrupted'] += 1; kinds[op] = kinds.get(op, 0) + 1
      comp = impl.Compiled(text); stats['compiles'] += 1
      whole = op in ('inconsistent-distinct', 'recursion-without-base-case', 'functor-argument-not-a-dependency', 'annotation-of-missing-predicate')
      for pred in c.preds:
        if pred not in prog.defined(): continue
        # recursion: the compiler prunes rule instances whose inputs are provably empty at the requested depth, so a broken rule of
        # ANOTHER member of the component may never be instantiated; rejection is asserted for the predicate whose own rule is broken
        if c.family.startswith('REC') and corrupted_pred is not None and pred != corrupted_pred: continue
        inv = True if whole else model_invalid(c, prog, pred)
        if expect != 'invalid' and not inv: inv = False
        if not inv:
          stats['not_asserted'] += 1; continue
        out = comp.sql(pred); stats['asserted'] += 1; stats['comparisons'] += 1
        outcomes.add((op, out[0], out[1] if out[0] != 'script' else ''))
        if out[0] == 'script':
          bad('invalid-program-compiled/%s' % op, 'SQL was produced for %s although the program is invalid (%s)' % (pred, op), text, op)
        elif out[0] != 'diag':
          bad('internal-error/%s/%s' % (op, out[1]), 'rejected with %s instead of a diagnostic: %s' % (out[1], out[2][:120]), text, op)
        else:
          msg = strip_colors(out[2])
          if names and not any(n in msg for n in names):
            bad('diagnostic-does-not-name-offender/%s' % op, 'diagnostic %s does not mention %s: %s' % (out[1], names, msg[:200]), text, op)
        if whole: break
      if len(samples) < 1 and op == 'unbound-variable-in-negation': samples.append(dict(operator=op, corrupted_program=text))
    # text level: unbalanced brackets / quotes of the original text
    base_text = c.text()
    for op, t in text_corruptions(base_text):
      stats['corrupted'] += 1; kinds[op] = kinds.get(op, 0) + 1
      comp = impl.Compiled(t); stats['compiles'] += 1; stats['asserted'] += 1; stats['comparisons'] += 1
      out = comp.sql(c.preds[0])
      outcomes.add((op, out[0], out[1] if out[0] != 'script' else ''))
      if out[0] == 'script': bad('unbalanced-input-compiled/%s' % op, 'SQL was produced for unbalanced input', t, op)
      elif out[0] != 'diag': bad('internal-error/%s/%s' % (op, out[1]), 'rejected with %s instead of a diagnostic: %s' % (out[1], out[2][:120]), t, op)
    # a block comment that is opened and never closed (finding F52): once per shard
    if i == shard:
      t = base_text + '\n/* this comment is never closed\nZzz9(1);\n'
      stats['corrupted'] += 1; kinds['unterminated-comment'] = kinds.get('unterminated-comment', 0) + 1; stats['compiles'] += 1; stats['asserted'] += 1; stats['comparisons'] += 1
      out = impl.Compiled(t).sql(c.preds[0])
      if out[0] == 'script': bad('F52-unterminated-block-comment-accepted', 'SQL was produced for a program whose last block comment is never closed (the rest of the text is silently dropped)', t, 'unterminated-comment')
      # a recursive predicate without a base case, read only under negation, whose NAME contains an underscore (finding F56;
      # the twin without the underscore must be rejected - asserted, not a finding)
      for nm, sig in (('Zzp9', 'recursion-without-base-case-under-negation-accepted'), ('Zz_p9', 'F56-underscore-recursion-without-base-case-under-negation-accepted')):
        t = base_text + '\nZzt9(1);\n%s(x) :- %s(x), Zzt9(x);\nZzq9(x) :- Zzt9(x), ~%s(x);\n' % (nm, nm, nm)
        stats['corrupted'] += 1; kinds['no-base-case-under-negation'] = kinds.get('no-base-case-under-negation', 0) + 1; stats['compiles'] += 1; stats['asserted'] += 1; stats['comparisons'] += 1
        out = impl.Compiled(t).sql('Zzq9')
        if out[0] == 'script': bad(sig, 'SQL was produced for Zzq9 although %s is recursive without a base case (the negation is compiled to a vacuous condition)' % nm, t, 'no-base-case-under-negation')
        elif out[0] != 'diag': bad('internal-error/no-base-case-under-negation/%s' % out[1], 'rejected with %s instead of a diagnostic: %s' % (out[1], out[2][:120]), t, 'no-base-case-under-negation')
  by = {}
  for v in viol: by.setdefault(v['sig'], []).append(v)
  outv = []
  for s, vs in by.items():
    vs.sort(key=lambda v: len(v['case']['text'])); outv.extend(vs[:2]); stats['viol_' + s] = len(vs)
  for k, n in kinds.items(): stats['kind_' + k] = n
  return dict(stats=stats, viol=outv, samples=samples, keys=dict(outcomes=outcomes))


def coverage(ctx, merged):
  s = merged['stats']
  return dict(
    states=s.get('corrupted', 0), transitions=s.get('compiles', 0), traces_validated_against_impl=s.get('comparisons', 0),
    samples=merged['samples'], exhaustive=True, evaluations=s.get('corrupted', 0), distinct_nontrivial=len(merged['keys'].get('outcomes', ())),
    rule='state = one corrupted program (one operator at one site of a valid generated program); transition = one compilation; asserted only when the model proves invalidity; distinct_nontrivial = distinct (operator, outcome class) pairs',
    base_programs=s.get('base_programs', 0), corrupted_programs=s.get('corrupted', 0), rejections_asserted=s.get('asserted', 0), not_asserted_model_says_valid=s.get('not_asserted', 0),
    operators={k[5:]: v for k, v in s.items() if k.startswith('kind_')}, cap_hit=False,
    bounds=dict(base='every 9th (thorough 2nd) program of the C01/C02 families, recursion shapes at depth 2, every 160th (40th) functor program'))


def replay(ctx, case):
  comp = impl.Compiled(case['text'])
  # re-compile every defined predicate
  out = []
  p = impl.M('parser_py.parse')
  try:
    rules = impl.quiet(p.ParseFile, case['text'])['rule']
    preds = sorted({r['head']['predicate_name'] for r in rules if not r['head']['predicate_name'].startswith('@')})
  except Exception:
    preds = ['T']
  for pred in preds:
    o = comp.sql(pred)
    if o[0] == 'script': out.append(dict(sig='invalid-program-compiled/%s' % case['operator'], what='compiled: %s' % pred, case=case))
    elif o[0] != 'diag': out.append(dict(sig='internal-error/%s/%s' % (case['operator'], o[1]), what=o[2][:100], case=case))
  return out


LEVEL_TEXT = ('A fixed catalogue of single-point corruption operators (fresh variable in a head argument / comparison / negated comparison, extra unbound comparison inside a negation, deleted binding '
              'literal, distinct dropped from an aggregating head, distinct made inconsistent between rules, base case of a recursion deleted, functor argument that is not a dependency, five '
              'annotations of a missing predicate, every bracket deleted or duplicated, every quote deleted) is applied at every site of a stratified set of valid generated programs; whenever the '
              'reference model proves the corrupted program invalid the real compiler must raise one of its four diagnostic classes naming the offending variable or predicate and return no SQL.')
LEVEL_NOTE = 'Trusted: the model\'s validity oracle (its scheduler = range restriction). Bounded: one corruption per program; stratified base set.'
