"""C13 - compilation is a deterministic, history-free function of the program text.

Machine: one Python process holding the repository's modules. Operations P(i) parse, C(i) parse+compile every
predicate, R(i) parse once and compile twice from the same rules object, over programs chosen to touch every
piece of module state.  State = canonical hash of every module-level / class-level data attribute of every
module loaded from the repository (collected generically).  Successors are produced by fork() from the process
holding the state.  All ordered pairs of operations are executed without de-duplication; deeper histories are
explored only through states that no shorter history reached.  Invariant: every observation equals the
baseline taken in a pristine process, modulo the time-stamped stop-file name.
Hash seeds: baselines recomputed in fresh subprocesses under PYTHONHASHSEED 0..7 (thorough 0..31) and 'random'.
"""
import os, sys, json, re, hashlib, subprocess, tempfile, shutil, glob, io, contextlib, pickle, types, struct
from .. import impl, explore

PID = 'C13'
LEVEL = 'model_checking'
TECHNIQUE = 'explicit-state exploration of compile histories (fork per transition, generic module-state hash) + exhaustive re-compilation under a list of hash seeds in fresh processes'
ASSUMPTIONS = ['2^32 hash seeds cannot be enumerated: the seed axis is exhaustive over the stated list only',
               'the state hash covers module-level and class-level data attributes of modules loaded from the repository; state hidden in closures or C extensions is covered only by the undeduplicated all-pairs exploration']

WORKERS = 8   # fork/page-fault heavy: this VM gives no speed-up beyond ~6-8 concurrent explorers (measured)
INCANT = 'Signa inter verba conjugo, symbolum infixus evoco!'

PROGRAMS = [
  ('plain', '@Engine("sqlite");\nA(1, 2); A(2, 3); B(2);\nP(x, s? += y) distinct :- A(x, y);\nT(x, y) :- A(x, y), ~B(x), y > 1 | B(x), y == Sum{z :- A(z, x)};\n', ['P', 'T'], None),
  ('functor', '@Engine("sqlite");\nA(1); B(2); C(3);\nD(x) :- A(x) | B(x);\nF(x) :- D(x), ~C(x);\nG := F(A: C);\nH := F(A: B, C: A);\nK := G(C: B);\nT(x) :- G(x) | H(x) | K(x);\n', ['T', 'K'], None),
  ('rec_vertical', '@Engine("sqlite");\nE(1, 2); E(2, 3);\nT(x, y) distinct :- E(x, y);\nT(x, z) distinct :- E(x, y), T(y, z);\n@Recursive(T, 3);\n', ['T'], None),
  ('rec_flat', '@Engine("sqlite");\nE(1, 2); E(2, 3);\nP(x) distinct :- E(x, x);\nP(y) distinct :- P(x), E(x, y);\nP(y) distinct :- Q(x), E(y, x);\nQ(y) distinct :- P(x), E(x, y);\nQ(y) distinct :- Q(x), E(x, y);\n@Recursive(P, 2);\n', ['P', 'Q'], None),
  ('rec_iterative', '@Engine("sqlite");\nE(1, 2); E(2, 3);\nT(x, y) distinct :- E(x, y);\nT(x, z) distinct :- E(x, y), T(y, z);\nU(x) distinct :- T(x, y);\nU(y) distinct :- U(x), T(x, y);\n@Recursive(T, 25);\n@Recursive(U, 22);\n', ['T', 'U'], None),
  ('ground', '@Engine("sqlite");\n@Ground(P); @Ground(Q);\nB(1); B(2);\nP(x) :- B(x);\nQ(x + 1) :- P(x);\nT(x, y) :- P(x), Q(y);\n', ['T', 'Q'], None),
  ('imports', '@Engine("sqlite");\nimport m1.Pub;\nimport d.m2.Pub as Pub2;\nT(x) :- Pub(x) | Pub2(x);\n', ['T'], 'imports'),
  ('psql_typed', '@Engine("psql");\nA(1, "a"); A(2, "b");\nP(x, l? List= s) distinct :- A(x, s);\nT(x, n, r) :- P(x, l:), n == Size(l), r == {a: x, b: l};\n', ['T', 'P'], None),
  ('duckdb_rec', '@Engine("duckdb");\nE(1, 2); E(2, 3);\nT(x, y) distinct :- E(x, y);\nT(x, z) distinct :- E(x, y), T(y, z);\nN(0) distinct;\nN(x + 1) distinct :- N(x), x < 5;\n@Recursive(N, -1);\n', ['T', 'N'], None),
  ('duckdb_diamond_ties', '@Engine("duckdb");\nE(1, 2); E(2, 3); E(3, 1);\nAlpha(x) distinct :- E(x, y);\nAlpha(x) distinct :- Beta(x) | Gamma(x) | Delta(x) | Eps(x);\n'
   'Beta(y) distinct :- Alpha(x), E(x, y), ~Gamma(y);\nGamma(y) distinct :- Alpha(x), E(y, x) | Beta(y), E(y, y);\nDelta(y) distinct :- Alpha(x), E(x, y), Eps(x);\nEps(y) distinct :- Alpha(y), E(y, x) | Delta(y);\n'
   'T(x) :- Alpha(x), Beta(x) | Gamma(x), Delta(x) | Eps(x);\n', ['T', 'Gamma'], None),
  ('mix_bigquery', '@Engine("bigquery");\nA(3, 2, [1, 2]);\nT(Greatest(x, y), Least(x, y), Log(x), ToString(x), Size(l), Element(l, 0), ToInt64("1"), Abs(x - y), Sqrt(x), Floor(x / y), Exp(y)) :- A(x, y, l);\nS(x, c? Count= y, m? Max= y, g? List= y) distinct :- A(x, y, l);\n', ['T', 'S'], None),
  ('mix_sqlite', '@Engine("sqlite");\nA(3, 2, [1, 2]);\nT(Greatest(x, y), Least(x, y), Log(x), ToString(x), Size(l), Element(l, 0), ToInt64("1"), Abs(x - y), Sqrt(x), Floor(x / y), Exp(y)) :- A(x, y, l);\nS(x, c? Count= y, m? Max= y, g? List= y) distinct :- A(x, y, l);\n', ['T', 'S'], None),
  ('mix_psql', '@Engine("psql");\nA(3, 2, [1, 2]);\nT(Greatest(x, y), Least(x, y), Log(x), ToString(x), Size(l), Element(l, 0), ToInt64("1"), Abs(x - y), Sqrt(x), Floor(x / y), Exp(y)) :- A(x, y, l);\nS(x, c? Count= y, m? Max= y, g? List= y) distinct :- A(x, y, l);\n', ['T', 'S'], None),
  ('mix_duckdb', '@Engine("duckdb");\nA(3, 2, [1, 2]);\nT(Greatest(x, y), Least(x, y), Log(x), ToString(x), Size(l), Element(l, 0), ToInt64("1"), Abs(x - y), Sqrt(x), Floor(x / y), Exp(y)) :- A(x, y, l);\nS(x, c? Count= y, m? Max= y, g? List= y) distinct :- A(x, y, l);\n', ['T', 'S'], None),
  ('mix_trino', '@Engine("trino");\nA(3, 2, [1, 2]);\nT(Greatest(x, y), Least(x, y), Log(x), ToString(x), Size(l), Element(l, 0), ToInt64("1"), Abs(x - y), Sqrt(x), Floor(x / y), Exp(y)) :- A(x, y, l);\nS(x, c? Count= y, m? Max= y, g? List= y) distinct :- A(x, y, l);\n', ['T', 'S'], None),
  ('mix_clickhouse', '@Engine("clickhouse");\nA(3, 2, [1, 2]);\nT(Greatest(x, y), Least(x, y), Log(x), ToString(x), Size(l), Element(l, 0), ToInt64("1"), Abs(x - y), Sqrt(x), Floor(x / y), Exp(y)) :- A(x, y, l);\nS(x, c? Count= y, m? Max= y, g? List= y) distinct :- A(x, y, l);\n', ['T', 'S'], None),
  ('bigquery_udfs', '@Engine("bigquery");\nA(1); A(2);\nFa(x) --> x + 1;\nGb(x) --> x * 2;\nHc(x) --> Fa(x) - Gb(x);\nKd(x) --> x / 2;\nT(Fa(x), Gb(x), Hc(x), Kd(x)) :- A(x);\n', ['T'], None),
  ('psql_udfs', '@Engine("psql");\nA(1); A(2);\nFa(x) --> x + 1;\nGb(x) --> x * 2;\nHc(x) --> Fa(x) - Gb(x);\nT(Fa(x), Gb(x), Hc(x)) :- A(x);\n', ['T'], None),
  ('flags', '@Engine("sqlite");\n@DefineFlag("who", "world");\n@DefineFlag("greeting", "hello ${who}");\nT(FlagValue("greeting"), "${who}!");\n', ['T'], None),
  ('incantation', '@Engine("sqlite");\n# ' + INCANT + '\nF(x) = x + 1;\nT(y) :- y == 2 * F(1);\n', ['T'], None),
  ('incantation_broken', '@Engine("sqlite");\n# ' + INCANT + '\nF(x) = x + 1;\nT(y) :- y == 2 * F(1;\n', ['T'], None),       # asks for the experimental syntax and does not parse
  ('fun_sensitive', '@Engine("sqlite");\nF(x) = x + 1;\nT(y) :- y == 2*F(1);\nU(x ---y) :- x == 1, y == 2 | x == 2, y == 1;\n', ['T', 'U'], None),
  # the same predicate names in different roles (injectible / limited / @NoInject / distinct / function with a body): whatever one compilation
  # remembers per predicate NAME must not reach the next program
  ('twin_plain', '@Engine("sqlite");\nA(1, 2); A(2, 3); A(3, 1);\nP(x, y) :- A(x, y);\nQ(x) :- P(x, y), y > 1;\nF(x) = x + 1;\nR(x) :- Q(x);\nT(x, F(x)) :- Q(x), P(x, z), R(x);\n', ['T', 'Q'], None),
  ('twin_annotated', '@Engine("sqlite");\nA(1, 2); A(2, 3); A(3, 1);\nP(x, y) order_by("col0 desc") limit(2) :- A(x, y);\n@NoInject(Q);\nQ(x) distinct :- P(x, y), y > 1;\nF(x) = y * 2 :- A(x, y);\n@Ground(R);\nR(x) :- Q(x);\nR(x) :- A(x, x);\n'
   'T(x, F(x)) :- Q(x), P(x, z), R(x);\n', ['T', 'Q'], None),
  # the value of a flag used inside an annotation (one text, two defaults); a predicate whose name exceeds 100 characters (alias hints are cut);
  # two independent iteratively unfolded components in one program
  ('flag_annotation_results', '@Engine("sqlite");\n@DefineFlag("out", "results");\n@Ground(Report, FlagValue("out"));\nReport(x) :- x in [1, 2];\nT(x) :- Report(x);\n', ['T'], None),
  ('flag_annotation_archive', '@Engine("sqlite");\n@DefineFlag("out", "archive");\n@Ground(Report, FlagValue("out"));\nReport(x) :- x in [1, 2];\nT(x) :- Report(x);\n', ['T'], None),
  ('long_name', '@Engine("sqlite");\nA(1, 2); A(2, 3);\nAggregatedVeryLongPredicateNameSegmentVeryLongPredicateNameSegmentVeryLongPredicateNameSegmentThatKeepsGoingAndGoing(x, s? += y) distinct :- A(x, y);\nT(x, s) :- AggregatedVeryLongPredicateNameSegmentVeryLongPredicateNameSegmentVeryLongPredicateNameSegmentThatKeepsGoingAndGoing(x, s), AggregatedVeryLongPredicateNameSegmentVeryLongPredicateNameSegmentVeryLongPredicateNameSegmentThatKeepsGoingAndGoing(s, x);\n', ['T'], None),
  ('two_iterative_components', '@Engine("sqlite");\n@Recursive(A, 30);\nA(x) :- x = 0 | B(y), x = y + 1, x < 5;\nB(x) :- A(x);\n@Recursive(C, 30);\nC(x) :- x = 0 | D(y), x = y + 1, x < 5;\nD(x) :- C(x);\nT(x) :- A(x) | D(x);\n', ['T'], None),
  ('bigquery', '@Engine("bigquery");\nA(1, [1, 2]); A(2, [3]);\nT(x, y) :- A(x, l), y in l;\nS(x? ArgMax= y -> x) distinct :- T(x, y);\n', ['T', 'S'], None),
]

IMPORT_FILES = {
  'm1.l': 'Priv(1); Priv(2);\nPub(x) :- Priv(x);\n',
  'd/m2.l': 'import m1.Pub as Base;\nPriv(10);\nPub(x + y) :- Priv(x), Base(y);\n',
}

STOP_RE = re.compile(r'logical_stop_\d+_')
ADDR_RE = re.compile(r'0x[0-9a-fA-F]+')


def mask(s):
  return ADDR_RE.sub('0x', STOP_RE.sub('logical_stop_T_', s))


# ------------------------------------------------------------------------------------------------- state hash
def canon(v, depth=0, seen=None):
  if seen is None: seen = set()
  if isinstance(v, (int, float, str, bytes, bool, type(None))): return repr(v)
  if depth > 6: return '<deep>'
  if id(v) in seen: return '<cycle>'
  if isinstance(v, (types.FunctionType, types.BuiltinFunctionType, types.MethodType, type, types.ModuleType)): return '<code>'
  seen = seen | {id(v)}
  if isinstance(v, dict): return '{%s}' % ','.join(sorted('%s:%s' % (canon(k, depth + 1, seen), canon(x, depth + 1, seen)) for k, x in v.items()))
  if isinstance(v, (set, frozenset)): return 'set(%s)' % ','.join(sorted(canon(x, depth + 1, seen) for x in v))
  if isinstance(v, (list, tuple)): return '[%s]' % ','.join(canon(x, depth + 1, seen) for x in v)
  if isinstance(v, re.Pattern): return 're(%r)' % v.pattern
  d = getattr(v, '__dict__', None)
  if isinstance(d, dict): return '%s(%s)' % (type(v).__name__, canon(d, depth + 1, seen))
  return '<%s>' % type(v).__name__


def module_state():
  """{qualified attribute name: canonical value} for all repository modules currently loaded"""
  out = {}
  root = os.path.realpath(impl.REPO)
  for name, m in sorted(sys.modules.items()):
    f = getattr(m, '__file__', None)
    if not f or not os.path.realpath(f).startswith(root + os.sep): continue
    for k, v in sorted(vars(m).items()):
      if k.startswith('__'): continue
      if isinstance(v, (types.FunctionType, types.BuiltinFunctionType, types.ModuleType)): continue
      if isinstance(v, type):
        if getattr(v, '__module__', None) != m.__name__: continue
        for ck, cv in sorted(vars(v).items()):
          if ck.startswith('__') or callable(cv) or isinstance(cv, (classmethod, staticmethod, property)): continue
          out['%s.%s.%s' % (name, k, ck)] = canon(cv)
        continue
      out['%s.%s' % (name, k)] = canon(v)
  return out


def state_hash():
  st = module_state()
  return hashlib.sha1(json.dumps(st, sort_keys=True).encode()).hexdigest()[:16], st


# ------------------------------------------------------------------------------------------------- operations
_SCRATCH = None


def scratch():
  """import tree on disk (outside /repo and /verif), created once per check process and removed at exit"""
  global _SCRATCH
  if _SCRATCH is None:
    _SCRATCH = os.environ.get('VERIF_C13_SCRATCH')
    if not _SCRATCH or not os.path.isdir(_SCRATCH):
      _SCRATCH = tempfile.mkdtemp(prefix='verif_c13_')
      for rel, content in IMPORT_FILES.items():
        p = os.path.join(_SCRATCH, rel); os.makedirs(os.path.dirname(p), exist_ok=True)
        open(p, 'w').write(content)
      os.environ['VERIF_C13_SCRATCH'] = _SCRATCH
  return _SCRATCH


def rules_fp(rules):
  return hashlib.sha1(json.dumps(rules, sort_keys=True, default=str).encode()).hexdigest()[:16]


def do_parse(i):
  name, text, preds, root = PROGRAMS[i]
  p = impl.M('parser_py.parse')
  try:
    r = impl.quiet(p.ParseFile, text, import_root=scratch() if root else None)
    return ('parsed', rules_fp(r['rule'])), r['rule']
  except BaseException as e:
    return ('error', type(e).__name__, mask(str(e))[:300]), None


def compile_sig(rules, pred):
  u = impl.M('compiler.universe')
  try:
    prog = impl.quiet(u.LogicaProgram, rules)
    sql = impl.quiet(prog.FormattedPredicateSql, pred)
    ex = prog.execution
    doc = dict(sql=sql, preamble=ex.preamble, defines=list(ex.defines_and_exports), main=ex.main_predicate_sql,
               exports=sorted(ex.table_to_export_map.items()), iterations=json.dumps(ex.iterations, sort_keys=True, default=str),
               edges=sorted(map(list, ex.dependency_edges)))
    return ('sql', hashlib.sha1(mask(json.dumps(doc, sort_keys=True)).encode()).hexdigest()[:16])
  except BaseException as e:
    return ('error', type(e).__name__, mask(str(e))[:300])


def run_op(op):
  """-> observation (hashable, JSON-able)"""
  kind, i = op
  name, text, preds, root = PROGRAMS[i]
  if kind == 'P':
    return do_parse(i)[0]
  if kind == 'C':
    obs, rules = do_parse(i)
    if rules is None: return obs
    return (obs,) + tuple(compile_sig(rules, p) for p in preds)
  if kind == 'R':
    obs, rules = do_parse(i)
    if rules is None: return obs
    out = [obs]
    before = rules_fp(rules)
    for p in preds: compile_sig(rules, p)
    after = rules_fp(rules)
    out.append(('rules_object_unchanged', before == after))
    for p in preds: out.append(compile_sig(rules, p))     # second compilation from the used rules object
    return tuple(out)
  raise ValueError(op)


QUICK_SKIP = {'psql_udfs', 'mix_trino', 'mix_clickhouse', 'rec_flat', 'bigquery', 'duckdb_rec', 'ground'}
_QUICK = [False]


def all_ops():
  return [(k, i) for i in range(len(PROGRAMS)) for k in ('P', 'C', 'R') if not (_QUICK[0] and PROGRAMS[i][0] in QUICK_SKIP)]


def expected_obs(op, base):
  """what the baseline says op must observe: R's second compilation must equal C's fresh one"""
  kind, i = op
  if kind == 'R':
    c = base[json.dumps(('C', i))]
    if c[0] == 'error' or not isinstance(c[0], (list, tuple)): return c
    return [c[0], ['rules_object_unchanged', True]] + list(c[1:])
  return base[json.dumps(op)]


def child(fn):
  """run fn() in a forked child, return its JSON-able result"""
  r, w = os.pipe()
  pid = os.fork()
  if pid == 0:
    try:
      os.close(r)
      try: res = ('ok', fn())
      except BaseException as e:
        import traceback
        res = ('crash', traceback.format_exc()[-600:])
      data = json.dumps(res, default=str).encode()
      with os.fdopen(w, 'wb') as f: f.write(data)
    finally:
      os._exit(0)
  os.close(w)
  with os.fdopen(r, 'rb') as f: data = f.read()
  os.waitpid(pid, 0)
  res = json.loads(data.decode()) if data else ['crash', 'no data']
  if res[0] != 'ok': raise RuntimeError('child crashed: ' + str(res[1]))
  return res[1]


def pristine_modules():
  # load everything the operations can touch so that the pristine state hash is comparable
  for m in ('parser_py.parse', 'compiler.universe', 'compiler.functors', 'compiler.rule_translate', 'compiler.expr_translate', 'compiler.dialects',
            'type_inference.research.infer', 'type_inference.research.reference_algebra', 'common.concertina_lib', 'parser_cpp.logica_parse_cpp'):
    try: impl.M(m)
    except Exception: pass


def _baseline_one(op):
  def f():
    o = run_op(tuple(op)); h, st = state_hash()
    return [o, h, st]
  return [list(op)] + child(f)


def baseline(workers=1):
  """observation of every op in a pristine process + pristine state hash + state after every single op"""
  pristine_modules()
  ops = all_ops()
  base = {}; single_states = {}; st_after = {}
  h0, st0 = state_hash()
  for op, o, h, st in explore.pmap(_baseline_one, [list(op) for op in ops], workers):
    k = json.dumps(op)
    base[k] = o; single_states[k] = h; st_after[k] = st
  return dict(base=base, h0=h0, st0=st0, single=single_states, st_after=st_after)


_BASE = None


def plan(ctx):
  global _BASE
  impl.setup(ctx.repo)
  scratch()
  _QUICK[0] = not ctx.thorough
  _BASE = baseline(ctx.workers)
  json.dump(_BASE, open(os.path.join(scratch(), 'base.json'), 'w'))
  ops = all_ops()
  # quick: first operation ranges over the parse+compile operations (P and R are made of the same calls); thorough: over all
  # first operation: the parse+compile operations (thorough: also the compile-twice operations); P is the first half of C
  tasks = [('hist', [list(op)], not ctx.thorough, ctx.seed) for op in ops if op[0] == 'C' or (ctx.thorough and op[0] == 'R')]
  seeds = list(range(32 if ctx.thorough else 4)) + ['random']
  corpus = sorted(glob.glob(os.path.join(ctx.repo, 'integration_tests', '*.l')))
  if not ctx.thorough:
    corpus = [f for f in corpus if re.search(r'Recursive|Iteration', open(f).read())]
  # the seed axis runs in real subprocesses, a few files per task
  for seed in seeds:
    tasks.append(('seeds', [seed], [], True))
    for ch in explore.shards(corpus, 3 if not ctx.thorough else 8):
      tasks.append(('seeds', [seed], ch, False))
  return tasks


def diff_states(a, b):
  return sorted(k for k in set(a) | set(b) if a.get(k) != b.get(k))[:6]


def work(task):
  """History tasks run in a freshly exec'ed interpreter (not in the pool worker): processes forked from one common
  ancestor share its anon_vma root and their copy-on-write faults contend in the kernel, which made 16 parallel
  fork-per-operation explorers ~10x slower."""
  if task[0] == 'seeds': return work_seeds(task)
  verif = os.path.dirname(os.path.dirname(os.path.dirname(os.path.abspath(__file__))))
  env = dict(os.environ, VERIF_C13_SCRATCH=scratch(), PYTHONPATH=verif)
  r = subprocess.run([sys.executable, '-m', 'mc.checks.c13', json.dumps(task)], env=env, capture_output=True, text=True, cwd=verif)
  line = [l for l in r.stdout.split('\n') if l.startswith('RESULT')]
  if not line: raise RuntimeError('history explorer failed: ' + r.stderr[-800:])
  res = json.loads(line[0][6:])
  res['keys'] = {k: set(v) for k, v in res['keys'].items()}
  return res


def hist_task(task):
  _, prefix, chain, seed = task
  _QUICK[0] = bool(chain)
  prefix = [tuple(op) for op in prefix]
  base = _BASE['base']
  ops = all_ops()
  import random
  random.Random(seed * 1000 + hash(tuple(prefix)) % 1000).shuffle(ops)
  known_states = {_BASE['h0']} | set(_BASE['single'].values())
  viol = []; stats = dict(transitions=0, comparisons=0, histories=0, deep_histories=0); states = set(); samples = []
  def bad(sig, what, hist):
    viol.append(dict(sig=sig, what=what, case=dict(kind='hist', history=[list(o) for o in hist])))
  def explore_from(hist, depth_left, st_here):
    """runs in the process that has executed hist.
    fork-per-operation mode: every op runs in its own fork of this state (exact pairs).
    chain mode: ops run one after the other in one fork for as long as the module-state hash stays equal to this
    state's (same state, same futures); an op that changes the state ends the chain (and is explored deeper), the
    remaining ops continue in a new fork of this state. Every chain is itself a real (longer) history and every op in
    it is compared with the pristine baseline."""
    res = []
    if not chain:
      for op in ops:
        def f(op=op):
          o = run_op(op); h, st = state_hash()
          deeper = []
          if depth_left > 1 and h not in known_states:
            deeper = explore_from(hist + [op], depth_left - 1, st)
          return [o, h, diff_states(st_here, st) if h != hash_of(st_here) else [], deeper]
        o, h, changed, deeper = child(f)
        res.append([list(op), o, h, changed, deeper, []])
      return res
    h_here = hash_of(st_here)
    i = 0
    all_ops_here = ops
    if depth_left == 1: ops_l = [o for o in all_ops_here if o[0] == 'C']    # quick tier: third level over parse+compile operations only
    else: ops_l = [o for o in all_ops_here if o[0] != 'P' or PROGRAMS[o[1]][0] in ('incantation', 'fun_sensitive')]   # second level: C and R (P is the first half of C)
    while i < len(ops_l):
      def f(start=i):
        out = []; ran = []
        for j in range(start, len(ops_l)):
          op = ops_l[j]; o = run_op(op); h, st = state_hash()
          entry = [list(op), o, h, [], [], [list(x) for x in ran]]
          ran.append(op)
          out.append(entry)
          if h != h_here:
            entry[3] = diff_states(st_here, st)
            if depth_left > 1 and h not in known_states:
              entry[4] = explore_from(hist + ran, depth_left - 1, st)
              entry.append(h)          # tell the holder: all successors of state h are now explored
            return [out, j + 1]
        return [out, len(ops_l)]
      out, nxt = child(f); res.extend(out); i = nxt
      for e in out:
        if len(e) > 6: known_states.add(e[6])
    return res
  def hash_of(st): return hashlib.sha1(json.dumps(st, sort_keys=True).encode()).hexdigest()[:16]
  def run_prefix():
    for op in prefix: run_op(op)
    h, st = state_hash()
    return [h, explore_from(list(prefix), 2, st)]
  h1, tree = child(run_prefix)
  def walk(hist, tree):
    for entry in tree:
      op, o, h, changed, deeper, ran = entry[:6]
      op = tuple(op); hist0 = hist; hist = hist0 + [tuple(x) for x in ran]; stats['transitions'] += 1; stats['comparisons'] += 1; stats['histories'] += 1
      states.add(h)
      exp = expected_obs(op, base)
      if json.dumps(o) != json.dumps(exp):
        name = PROGRAMS[op[1]][0]
        first_diff = describe_diff(exp, o)
        sig = 'history-dependent/%s/%s after %s' % (op[0], name, '+'.join('%s(%s)' % (k, PROGRAMS[i][0]) for k, i in hist))
        # narrow the signature to the *cause*: the set of state attributes that differ from pristine before this op
        bad('history-dependent:%s(%s)' % (op[0], name), '%s of program %s observes %s after history %s (pristine: %s)' % (
          op[0], name, first_diff, [(k, PROGRAMS[i][0]) for k, i in hist], 'same program compiled in a pristine process'), hist + [op])
      if deeper:
        stats['deep_histories'] += 1
        walk(hist + [op], deeper)
      hist = hist0
  walk(list(prefix), tree)
  states.add(h1)
  if prefix == [('C', 0)]:
    samples.append(dict(history=[['C', 'plain'], ['C', 'incantation'], ['P', 'fun_sensitive']], meaning='compile plain; compile the program containing the incantation; parse the program whose parse differs under the experimental switch; compare with a pristine parse'))
  return dict(stats=stats, viol=dedup(viol), samples=samples, keys=dict(states=sorted(states)))


def describe_diff(exp, got):
  e, g = json.dumps(exp), json.dumps(got)
  if isinstance(got, list) and got and got[0] == 'error': return 'error %s: %s' % (got[1], got[2][:120])
  return 'a different result (%s... instead of %s...)' % (g[:80], e[:80])


def dedup(viol):
  by = {}
  for v in viol: by.setdefault(v['sig'], []).append(v)
  out = []
  for s, vs in by.items():
    vs.sort(key=lambda v: len(v['case']['history'])); out.extend(vs[:2])
  return out


# ------------------------------------------------------------------------------------------------- hash seeds
SUB = r'''
import sys, os, json, re, hashlib, io, contextlib
sys.path.insert(0, os.environ['VERIF_REPO']); sys.path.insert(1, %(verif)r)
from mc import impl; impl.setup(os.environ['VERIF_REPO'])
from mc.checks import c13
out = {}
probe = ['T_ifr1', 'T_ifr2', 'U_ifr1', 'U_ifr2', 'S', 'P', 'Q', 'N_diamond', 'M']
out['__probe_order__'] = list(set(probe))
if os.environ.get('VERIF_C13_GEN') == '1':
  for i, (name, text, preds, root) in enumerate(c13.PROGRAMS):
    out['gen:' + name] = c13.run_op(('C', i))
files = json.loads(os.environ['VERIF_C13_FILES'])
p = impl.M('parser_py.parse')
for f in files:
  try:
    rules = impl.quiet(p.ParseFile, open(f).read(), import_root=os.environ['VERIF_REPO'])['rule']
    preds = sorted({r['head']['predicate_name'] for r in rules if not r['head']['predicate_name'].startswith('@')})
    target = 'Test' if 'Test' in preds else preds[-1]
    out['file:' + os.path.basename(f)] = c13.compile_sig(rules, target)
  except BaseException as e:
    out['file:' + os.path.basename(f)] = ['error', type(e).__name__, c13.mask(str(e))[:200]]
print('RESULT' + json.dumps(out))
'''


def work_seeds(task):
  _, seeds, files, with_generated = task
  verif = os.path.dirname(os.path.dirname(os.path.dirname(os.path.abspath(__file__))))
  results = {}
  stats = dict(seed_processes=0, seed_compiles=0, comparisons=0, transitions=0); viol = []; orders = set()
  for seed in seeds:
    env = dict(os.environ, PYTHONHASHSEED=str(seed), VERIF_C13_FILES=json.dumps(files), VERIF_C13_SCRATCH=scratch(), VERIF_C13_GEN='1' if with_generated else '0')
    r = subprocess.run([sys.executable, '-c', SUB % dict(verif=verif)], env=env, capture_output=True, text=True)
    line = [l for l in r.stdout.split('\n') if l.startswith('RESULT')]
    if not line:
      viol.append(dict(sig='seed-subprocess-failed', what=r.stderr[-400:], case=dict(kind='seeds', seed=seed, files=files))); continue
    results[seed] = json.loads(line[0][6:]); stats['seed_processes'] += 1
    orders.add(json.dumps(results[seed].pop('__probe_order__')))
  keys = {}
  for seed, res in results.items():
    for key, val in res.items():
      if key.startswith('gen:') and not with_generated: continue
      stats['seed_compiles'] += 1; stats['comparisons'] += 1; stats['transitions'] += 1
      keys.setdefault('seedres|' + key, set()).add((json.dumps(val), str(seed)))
  keys['probe_orders'] = orders
  keys['seeds'] = {str(x) for x in seeds}
  return dict(stats=stats, viol=viol, samples=[dict(seed=str(seeds[0]), generated_programs=len(PROGRAMS))] if with_generated and seeds[0] == 0 else [], keys=keys)


def post(ctx, merged):
  global _SCRATCH
  if merged is not None:
    # cross-seed comparison: every program must have one and the same script under every seed
    for k, vals in merged['keys'].items():
      if not k.startswith('seedres|'): continue
      by = {}
      for sig, seed in vals: by.setdefault(sig, []).append(seed)
      if len(by) > 1:
        groups = sorted(by.values(), key=lambda g: (-len(g), g))
        key = k[8:]
        files = [key[5:]] if key.startswith('file:') else []
        merged['viol'].append(dict(sig='hash-seed-dependent:%s' % key, what='%s compiles to %d different scripts over the hash seeds (e.g. PYTHONHASHSEED=%s vs %s)' % (key, len(by), groups[0][0], groups[1][0]),
                                   case=dict(kind='seeds', seeds=[groups[0][0], groups[1][0]], files=files, generated=key.startswith('gen:'))))
  if _SCRATCH and os.path.isdir(_SCRATCH): shutil.rmtree(_SCRATCH, ignore_errors=True)
  _SCRATCH = None; os.environ.pop('VERIF_C13_SCRATCH', None)


def coverage(ctx, merged):
  s = merged['stats']; k = merged['keys']
  return dict(
    states=len(k.get('states', ())) + 1, transitions=s.get('transitions', 0) + len(all_ops()), traces_validated_against_impl=s.get('comparisons', 0),
    samples=merged['samples'], exhaustive=True,
    evaluations=s.get('histories', 0) + s.get('seed_compiles', 0), distinct_nontrivial=len(k.get('states', ())) + len(k.get('probe_orders', ())),
    rule='state = distinct hash of all module/class-level data of the loaded repository modules; transition = one operation (P parse, C parse+compile, R compile twice from one rules object) executed in a process forked from the state; '
         'every ordered pair of operations is executed, deeper only through states no shorter history reached; seed axis: one fresh subprocess per seed',
    operations=len(all_ops()), programs=len(PROGRAMS), histories=s.get('histories', 0), histories_beyond_pairs=s.get('deep_histories', 0),
    hash_seeds=len(k.get('seeds', ())), seed_processes=s.get('seed_processes', 0), seed_compiles=s.get('seed_compiles', 0),
    distinct_set_iteration_orders_of_probe=len(k.get('probe_orders', ())),
    bounds=dict(history_depth='2 exhaustive (quick: first operation over the 13 parse+compile operations), 3 through new states', seeds='0..%d + random' % (31 if ctx.thorough else 3)), cap_hit=False)


def replay(ctx, case):
  global _BASE
  impl.setup(ctx.repo); scratch()
  try:
    if case['kind'] == 'seeds':
      files = [os.path.join(ctx.repo, 'integration_tests', f) for f in case['files']]
      from ..runner import merge
      m = merge([work_seeds(('seeds', [sd], files, bool(case.get('generated')))) for sd in case.get('seeds', [0, 1, 2, 3])])
      post(ctx, m)
      return m['viol']
    _BASE = baseline()
    hist = [tuple(o) for o in case['history']]
    json.dump(_BASE, open(os.path.join(scratch(), 'base.json'), 'w'))
    r = work(('hist', [list(o) for o in hist[:-1]], False, 0))
    return r['viol']
  finally:
    post(ctx, None)


LEVEL_TEXT = ('Explicit-state exploration of compile histories on the real modules: 84 operations (parse / parse+compile / compile twice from one rules object, over 28 programs covering '
              'functors, every recursion mode, @Iteration, @Ground, imports, type-checked psql, duckdb, bigquery, UDFs, flags (also inside an annotation: one text, two defaults), pairs of programs that use the same predicate names in different roles, a 107-character predicate name, two independent iterative components, and a program switching on experimental syntax plus one whose parse '
              'differs under that switch); every ordered pair of operations is executed by fork() from the process holding the state and compared with a pristine-process baseline, deeper '
              'histories only through module states not seen earlier (generic hash of every module/class-level attribute). Every generated program and a corpus of integration programs is '
              're-compiled in fresh subprocesses under each listed PYTHONHASHSEED and the scripts compared byte for byte (stop-file timestamp masked).')
LEVEL_NOTE = 'Trusted: os.fork() giving an exact copy of the state; the masking regex for the stop-file name. Bounded: 28 programs (quick leaves out 7), history depth 2 (3 via new states), listed seeds only.'


if __name__ == '__main__':
  impl.setup(os.environ.get('VERIF_REPO', '/repo'))
  pristine_modules()
  _BASE = json.load(open(os.path.join(scratch(), 'base.json')))
  print('RESULT' + json.dumps(hist_task(json.loads(sys.argv[1])), default=str))
