"""C05 - type checking: accepts well-typed, rejects clashes, matches run-time values."""
import itertools, json
from .. import impl, explore, semcheck, families, lang, typemodel, variants, refsem
from ..lang import R, Rule, Lit, V, N, S, Bin, Cmp, Eq, Call, Program, Ann, Functor
from ..semcheck import Case

PID = 'C05'
LEVEL = 'model_checking'
TECHNIQUE = 'exhaustive enumeration of typed generated programs under all rule/conjunct orders and of all single-point type corruptions at every typed variable under every insertion position; type checker verdict, inferred signatures and run-time values vs the model\'s ground types'
ASSUMPTIONS = ['programs are in fact form over numeric base facts, so every variable has a ground type known to the model by construction (mc/typemodel.py)',
               'a corruption forces a variable or column of known ground type to a second ground type (Num vs Str vs Bool vs list vs record)']

FACTS = {'A': [(1, 2), (2, 1), (2, 2)], 'B': [(1,), (2,)], 'S': [('a',), ('b',)]}
BASE_SIGS = {'A': {'col0': 'Num', 'col1': 'Num'}, 'B': {'col0': 'Num'}, 'S': {'col0': 'Str'}}
_CASES = None


def base_cases(thorough):
  step = 3 if thorough else 12
  out = []
  for gen in (families.c01_cases(False), families.c02_cases(False)):
    by = {}
    for c in gen:
      if c.family in families.FINDING_FAMILIES: continue
      by.setdefault(c.family, []).append(c)
    for fam, cs in by.items():
      st = step if fam not in ('EXPR', 'FUNC', 'INJ', 'STR') else (1 if fam in ('EXPR', 'STR') else max(1, step // 4))
      out += cs[::st]
  return out + scope_cases(thorough)


def scope_cases(thorough):
  """2-4 sibling aggregating expressions in one rule that reuse one local variable name at different types (Num / Str / record): every
  combine is its own scope, so all of these are well typed, in every conjunct order"""
  from ..lang import Comb
  x, y = V('x'), V('y')
  local = {
    'N': lambda: Comb('Sum', y, (Lit('A', x, y),)),
    'S': lambda: Comb('List', y, (Lit('S', y),)),
    'R': lambda: Comb('Sum', ('fld', y, 'a'), (('in', y, ('list', (('rec', (('a', x),)), ('rec', (('a', N(1)),))))),)),
  }
  out = []
  for k in ((2, 3, 4) if thorough else (2, 3)):
    for pat in itertools.product('NSR', repeat=k):
      if len(set(pat)) < 2: continue
      vs = [V('v%d' % i) for i in range(k)]
      body = (Lit('B', x),) + tuple(Eq(v, local[t]()) for v, t in zip(vs, pat))
      out.append(Case('SCOPES', Program([R('T', x, *vs, body=body)]), ['T'], schema='ABS', info=dict(pattern=''.join(pat))))
  # the same through the `v Op= (e :- body)` spelling and inside a negation next to a combine
  out.append(Case('SCOPES', Program([R('T', x, V('a'), V('b'), V('c'), body=(Lit('B', x), ('aggeq', 'a', 'Sum', y, (Lit('A', x, y),)), ('aggeq', 'b', 'List', y, (Lit('S', y),)), ('aggeq', 'c', 'Max', y, (Lit('A', y, x),))))]), ['T'], schema='ABS'))
  out.append(Case('SCOPES', Program([R('T', x, V('a'), V('c'), body=(Lit('B', x), Eq(V('a'), local['N']()), lang.Not(Lit('S', y), Cmp('==', y, S('a'))), Eq(V('c'), local['N']())))]), ['T'], schema='ABS'))
  # positional arguments are the named arguments col0, col1, ... (docs/learn/logica.md): both spellings, both directions
  z = V('z')
  W = R('W', x, Bin('+', y, N(1)), body=(Lit('A', x, y),))
  Wn = R('W', named={'col0': x, 'col1': S('k')}, body=(Lit('B', x),))
  for anns in ([], [Ann('@NoInject(W);')]):
    out.append(Case('SYNONYM', Program([W] + anns + [R('T', x, body=(Lit('W', col0=x),))]), ['T'], schema='ABS'))
    out.append(Case('SYNONYM', Program([W] + anns + [R('T', x, z, body=(Lit('W', col1=z, col0=x),))]), ['T'], schema='ABS'))
    out.append(Case('SYNONYM', Program([W] + anns + [R('T', x, z, body=(Lit('W', x, col1=z),))]), ['T'], schema='ABS'))
    out.append(Case('SYNONYM', Program([Wn] + anns + [R('T', x, z, body=(Lit('W', x, z),))]), ['T'], schema='ABS'))
    out.append(Case('SYNONYM', Program([Wn] + anns + [R('T', z, body=(Lit('W', col1=z),))]), ['T'], schema='ABS'))
  out.append(Case('SYNONYM', Program([R('T', y, body=(Lit('A', col1=y),))]), ['T'], schema='ABS'))
  out.append(Case('SYNONYM', Program([R('T', y, x, body=(Lit('A', col1=y, col0=x), Lit('S', col0=z)))]), ['T'], schema='ABS'))
  out.append(Case('SYNONYM', Program([R('F', x, value=Bin('+', x, N(1))), R('T', y, body=(Lit('B', x), Eq(y, Call('F', col0=x))))]), ['T'], schema='ABS'))
  return out


def cases(thorough):
  global _CASES
  if _CASES is None or _CASES[0] != thorough:
    _CASES = (thorough, base_cases(thorough))
  return _CASES[1]


# Programs whose clash (or well-typedness) is visible only at the level of predicate signatures: the two types reach the rule
# through non-injectible predicates (several facts), through two rules of one predicate, or through sibling scopes.
SIGNATURE_LEVEL = {
  'union-lists': (['LN(l: [1, 2]);', 'LN(l: [3]);', 'LS(l: ["a"]);', 'LS(l: ["b"]);', 'T(l) :- LN(l:);', 'T(l) :- LS(l:);'], 'T', 'reject'),
  'join-lists': (['LN(l: [1, 2]);', 'LN(l: [3]);', 'LS(l: ["a"]);', 'LS(l: ["b"]);', 'T(l) :- LN(l:), LS(l:);'], 'T', 'reject'),
  'union-scalars': (['N1(1);', 'N1(2);', 'S1("a");', 'S1("b");', 'T(x) :- N1(x);', 'T(x) :- S1(x);'], 'T', 'reject'),
  'join-scalars': (['N1(1);', 'N1(2);', 'S1("a");', 'S1("b");', 'T(x) :- N1(x), S1(x);'], 'T', 'reject'),
  'join-records': (['RN(r: {a: 1});', 'RN(r: {a: 2});', 'RS(r: {a: "x"});', 'RS(r: {a: "y"});', 'T(r) :- RN(r:), RS(r:);'], 'T', 'reject'),
  'union-records': (['RN(r: {a: 1});', 'RN(r: {a: 2});', 'RS(r: {a: "x"});', 'RS(r: {a: "y"});', 'T(r) :- RN(r:);', 'T(r) :- RS(r:);'], 'T', 'reject'),
  'join-nested-records': (['RN(r: {a: {b: 1}});', 'RN(r: {a: {b: 2}});', 'RS(r: {a: {b: "x"}});', 'RS(r: {a: {b: "y"}});', 'T(r) :- RN(r:), RS(r:);'], 'T', 'reject'),
  'join-list-of-records': (['RN(r: [{a: 1}]);', 'RN(r: [{a: 2}]);', 'RS(r: [{a: "x"}]);', 'RS(r: [{a: "y"}]);', 'T(r) :- RN(r:), RS(r:);'], 'T', 'reject'),
  'closed-records-with-different-fields': (['B(1);', 'T(x) :- B(y), x = {a: 2, b: "x"}, x = {a: 1};'], 'T', 'reject'),
  'closed-records-with-different-fields-2': (['RN(r: {a: 1});', 'RN(r: {a: 2});', 'RS(r: {a: 1, b: 2});', 'RS(r: {a: 3, b: 4});', 'T(r) :- RN(r:), RS(r:);'], 'T', 'reject'),
  'fact-then-rule': (['T(1);', 'T(x) :- Q(x);', 'Q("a");', 'Q("b");'], 'T', 'reject'),
  'aggregate-then-compare': (['A(1, "a");', 'A(2, "b");', 'P(x, l? List= y) distinct :- A(x, y);', 'T(x) :- P(x, l:), 1 in l;'], 'T', 'reject'),
  'sibling-combines-reuse-a-local-name': (['A(1, "a");', 'A(2, "b");', 'B(1);', 'T(x, s, t) :- B(x), s = Sum{y :- A(y, z)}, t = List{y :- A(z, y)};'], 'T', 'accept'),
  'rules-with-different-fields': (['P(a: 1, b: "s");', 'P(a: 3);', 'T(a) :- P(a:);'], 'T', 'reject'),
  'rules-with-different-arity': (['P(1, 2);', 'P(3);', 'T(a) :- P(a);'], 'T', 'reject'),
  'positional-and-colN-heads': (['P(1, "a");', 'P(col1: "b", col0: 2);', 'T(x, y) :- P(x, y);'], 'T', 'accept'),
  'three-sibling-combines-reuse-a-local-name': (['A(1, "a");', 'A(2, "b");', 'B(1);', 'T(x, s, t, u) :- B(x), s = Sum{y :- A(y, z)}, t = List{y :- A(z, y)}, u = Count{y :- A(y, y2)};'], 'T', 'accept'),
  'sibling-negations-reuse-a-local-name': (['A(1, "a");', 'A(2, "b");', 'B(1);', 'T(x) :- B(x), ~A(y, "c"), ~A(3, y);'], 'T', 'accept'),
  'records-same-fields': (['RN(r: {a: 1, b: "p"});', 'RN(r: {a: 2, b: "q"});', 'RS(r: {b: "p", a: 1});', 'RS(r: {b: "z", a: 2});', 'T(r) :- RN(r:), RS(r:);'], 'T', 'accept'),
  'lists-same-element': (['LN(l: [1, 2]);', 'LN(l: [3]);', 'LM(l: [3]);', 'LM(l: []);', 'T(l) :- LN(l:);', 'T(l) :- LM(l:);'], 'T', 'accept'),
}


def signature_level_orders(stmts):
  if len(stmts) <= 5: return [list(p) for p in itertools.permutations(stmts)]
  out = []
  facts, rules = stmts[:4], stmts[4:]
  for fp in ([0, 1, 2, 3], [2, 3, 0, 1], [3, 1, 2, 0]):
    for rp in itertools.permutations(rules):
      f = [facts[i] for i in fp]
      out.append(f + list(rp)); out.append(list(rp) + f); out.append(f[:2] + list(rp) + f[2:])
  return out


def work_signature_level(name):
  impl.accelerate_library_parse()
  stmts, pred, expect = SIGNATURE_LEVEL[name]
  stats = dict(signature_level_programs=0, compiles=0, comparisons=0); viol = []; outcomes = set()
  for order in signature_level_orders(stmts):
    text = '@Engine("sqlite", type_checking: true);\n' + '\n'.join(order) + '\n'
    comp = impl.Compiled(text); stats['compiles'] += 1; stats['signature_level_programs'] += 1; stats['comparisons'] += 1
    o = comp.err or comp.sql(pred)
    outcomes.add((name, o[0] if o[0] != 'diag' else o[1]))
    if expect == 'reject' and o[0] == 'script':
      viol.append(dict(sig='type-clash-accepted/signature-level/%s' % name, what='ill-typed program accepted in this order | %s' % semcheck.oneline(text), case=dict(text=text, kind='sig:' + name)))
    elif expect == 'accept' and o[0] != 'script':
      viol.append(dict(sig='well-typed-program-rejected/signature-level/%s' % name, what='well-typed program rejected (%s: %s) | %s' % (o[1], o[2][:100].replace('\n', ' '), semcheck.oneline(text)), case=dict(text=text)))
    elif o[0] not in ('script', 'diag'):
      viol.append(dict(sig='internal-error/signature-level/%s/%s' % (name, o[1]), what=o[2][:150], case=dict(text=text)))
  viol.sort(key=lambda v: len(v['what']))
  stats['viol_n'] = len(viol)
  return dict(stats=stats, viol=viol[:2], samples=[dict(signature_level=name, statements=stmts, expected=expect)] if name == 'join-records' else [], keys=dict(outcomes=outcomes))


def plan(ctx):
  n = len(cases(ctx.thorough))
  nsh = min(n, 160)
  return [('typ', ctx.thorough, i, nsh) for i in range(nsh)] + [('sig', name) for name in SIGNATURE_LEVEL]


def typed_program(stmts):
  return Program(semcheck.facts_for(FACTS, 'ABS') + list(stmts), engine='sqlite', type_checking=True)


def var_types(rule, typer):
  try: return typer.body_env(rule.body or ())
  except (typemodel.Unknown, typemodel.TypeClash): return {}


def other_literal(t):
  """an expression of a different ground type"""
  if t == 'Num': return [S('q'), ('b', True), ('list', (N(1),))]
  if t == 'Str': return [N(7), ('b', False)]
  if t == 'Bool': return [N(7), S('q')]
  if isinstance(t, tuple) and t[0] == 'list': return [N(7), S('q')]
  if isinstance(t, tuple) and t[0] == 'rec': return [N(7), ('list', (N(1),))]
  return []


def corruptions(program, typer, thorough=True):
  """single-point type corruptions: -> list of (kind, stmts)"""
  stmts = program.stmts
  out = []
  for i, s in enumerate(stmts):
    if not isinstance(s, Rule) or not s.body: continue
    env = var_types(s, typer)
    top = lang.bvars(s.body, nested=False)
    for v in sorted(env):
      if v not in top or v.startswith('_'): continue
      t = env[v]
      extra = []
      for lit in other_literal(t)[:2]: extra.append(('clash-with-literal', Eq(V(v), lit)))
      if t == 'Num':
        extra.append(('string-operator-on-number', Eq(V('zz9'), Bin('++', V(v), S('a')))))
        extra.append(('size-of-number', Cmp('>', Call('Size', V(v)), N(0))))
        extra.append(('field-of-number', Eq(('fld', V(v), 'f'), N(1))))
        extra.append(('number-used-as-list', ('in', N(1), V(v))))
        extra.append(('compared-with-string', Cmp('<', V(v), S('a'))))
        extra.append(('not-equal-to-string', Cmp('!=', V(v), S('a'))))
        extra.append(('equal-to-string-in-expression', Eq(V('zz9'), Bin('==', V(v), S('a')))))
      if isinstance(t, tuple) and t[0] == 'list':
        extra.append(('arithmetic-on-list', Eq(V('zz9'), Bin('+', V(v), N(1)))))
      if isinstance(t, tuple) and t[0] == 'rec':
        extra.append(('missing-field-of-closed-record', Eq(V('zz9'), ('fld', V(v), 'nofield9'))))
      for kind, conj in extra:
        for pos in (range(len(s.body) + 1) if thorough else sorted({0, len(s.body)})):
          nb = s.body[:pos] + (conj,) + s.body[pos:]
          out.append((kind, stmts[:i] + [s.replace(body=nb)] + stmts[i + 1:]))
      break_after = True
    # a second rule of the same predicate with a string where the first has a number
    if s.args and not s.is_agg() and not s.distinct and s.value is None:
      try:
        sig = typer.sig(s.pred)
      except (typemodel.Unknown, typemodel.TypeClash):
        sig = {}
      for k, (f, e) in enumerate(s.args):
        c = refsem.field_col(f)
        if sig.get(c) in ('Num', ('list', 'Num')):
          def filler(t):
            if t == 'Num': return N(1)
            if t == 'Str': return S('z')
            if t == 'Bool': return ('b', True)
            if t == ('list', 'Num'): return ('list', (N(1),))
            return None
          wrong = S('q') if sig.get(c) == 'Num' else ('list', (S('q'),))
          new_args = tuple((ff, (wrong if kk == k else filler(sig.get(refsem.field_col(ff))))) for kk, (ff, ee) in enumerate(s.args))
          if all(x is not None for _, x in new_args):
            fact = Rule(s.pred, new_args)
            out.append(('rules-disagree-on-column-type', stmts[:i + 1] + [fact] + stmts[i + 1:]))
            out.append(('rules-disagree-on-column-type', stmts[:i] + [fact] + stmts[i:]))
          if sig.get(c) == 'Num' and not any(sig.get(refsem.field_col(ff)) == ('list', 'Num') for ff, _ in s.args[k + 1:]): break
  # an aggregating predicate: a second distinct rule whose aggregated column has another element type
  for i, s in enumerate(stmts):
    if isinstance(s, Rule) and s.distinct and s.is_agg() and s.value is None:
      try: sig = typer.sig(s.pred)
      except (typemodel.Unknown, typemodel.TypeClash): continue
      for k, (f, e) in enumerate(s.args):
        if e[0] == 'aggr' and e[1] in ('Min', 'Max', 'List', 'Set') and sig.get(refsem.field_col(f)) in ('Num', ('list', 'Num')):
          def filler(ff, ee):
            t = sig.get(refsem.field_col(ff))
            if ee[0] == 'aggr': return ('aggr', ee[1], N(1)) if t in ('Num', ('list', 'Num')) else None
            return N(1) if t == 'Num' else None
          new_args = tuple((ff, (('aggr', e[1], S('q')) if kk == k else filler(ff, ee))) for kk, (ff, ee) in enumerate(s.args))
          if all(x is not None for _, x in new_args):
            r2 = Rule(s.pred, new_args, distinct=True)
            out.append(('rules-disagree-on-aggregated-type', stmts[:i + 1] + [r2] + stmts[i + 1:]))
            out.append(('rules-disagree-on-aggregated-type', stmts[:i] + [r2] + stmts[i:]))
            # a consumer joining this column with a column of the other element type from a second aggregating predicate
          break
  # a fact of a base table with a string in a numeric column (first and last position)
  out.append(('fact-of-other-type', [R('A', N(1), S('q'))] + stmts))
  out.append(('fact-of-other-type', stmts + [R('B', S('q'))]))
  return out


def work(task):
  # every program of this check compiles in well under a second of CPU time: a call that needs a minute does not terminate
  # in any practical sense (seeded change c05_r8_1 made VeryConcreteType exponential on shared type nodes)
  impl.BUDGET[0] = min(impl.BUDGET[0], 30.0)
  if task[0] == 'sig': return work_signature_level(task[1])
  _, thorough, shard, nsh = task
  impl.accelerate_library_parse()
  ra = impl.M('type_inference.research.reference_algebra')
  cs = cases(thorough)
  stats = dict(base_programs=0, accepted_variants=0, corrupted=0, compiles=0, comparisons=0, signatures_checked=0, values_checked=0, skipped_untyped=0); viol = []; samples = []; kinds = {}; outcomes = set()
  def bad(sig, what, text, kind=None):
    viol.append(dict(sig=sig, what='%s | %s' % (what, semcheck.oneline(text)[:300]), case=dict(text=text, kind=kind)))
  for i in range(shard, len(cs), nsh):
    c = cs[i]
    rules = c.program.rules()
    if c.program.functors(): continue
    if any(semcheck.in_list_mentions_own_element(r.body or ()) for r in rules): continue      # finding F26 (recorded under C02): rejected for a reason that is not typing
    typer = typemodel.Typer(rules, BASE_SIGS)
    try:
      model_sigs = {p: typer.sig(p) for p in c.program.defined()}
      if any(typemodel.has_unknown(t) for s in model_sigs.values() for t in s.values()): raise typemodel.Unknown('partial')
    except (typemodel.Unknown, typemodel.TypeClash, KeyError):
      stats['skipped_untyped'] += 1; continue
    stats['base_programs'] += 1
    # (i) + (iii): the program and all its rule / conjunct orders are accepted with exactly the model's signatures; values inhabit them
    vs = [('original', c.program, c.preds)] + [v for v in variants.variants(c.program, c.preds) if v[0] in ('conjuncts', 'statements', 'nested')]
    for v in vs:
      prog = typed_program(v[1].stmts); text = prog.text()
      comp = impl.Compiled(text); stats['compiles'] += 1; stats['accepted_variants'] += 1; stats['comparisons'] += 1
      if comp.err:
        outcomes.add(('valid', comp.err[1]))
        bad('well-typed-program-rejected/%s' % comp.err[1], 'order variant (%s) rejected: %s' % (v[0], comp.err[2][:160]), text); continue
      outcomes.add(('valid', 'accepted'))
      for pred, ms in model_sigs.items():
        got = comp.prog.predicate_signatures.get(pred)
        if got is None: continue
        stats['signatures_checked'] += 1
        try:
          g = {typemodel.fcol(k): ra.RenderType(ra.VeryConcreteType(t)) for k, t in got.items()}
        except Exception as e:
          bad('signature-unrenderable', '%s: %s' % (pred, e), text); continue
        e = {typemodel.fcol(k): typemodel.render(t) for k, t in ms.items()}
        if g != e:
          bad('wrong-signature/%s' % c.family, 'predicate %s inferred %s, model %s (variant %s)' % (pred, g, e, v[0]), text)
      if v[0] == 'original':
        db = impl.Db({})
        for pred in c.preds:
          out = comp.sql(pred)
          if out[0] != 'script':
            bad('well-typed-program-rejected/%s' % out[1], '%s: %s' % (pred, out[2][:160]), text); continue
          got = db.run(out)
          if got[0] != 'rows': bad('sql-error', got[1], text); continue
          ms = model_sigs.get(pred, {})
          for row in got[2]:
            for col, val in zip(got[1], row):
              stats['values_checked'] += 1
              t = ms.get(col)
              if not typemodel.inhabits(val, t):
                bad('value-does-not-inhabit-type', '%s.%s = %r but the inferred type is %s' % (pred, col, val, typemodel.render(t)), text)
        db.close()
    # (ii) single-point corruptions, every insertion position
    for kind, stmts in corruptions(c.program, typer, thorough):
      prog = typed_program(stmts); text = prog.text()
      stats['corrupted'] += 1; stats['compiles'] += 1; stats['comparisons'] += 1; kinds[kind] = kinds.get(kind, 0) + 1
      comp = impl.Compiled(text)
      res = comp.err
      if res is None:
        # some type errors surface when the predicate is compiled
        for pred in c.preds:
          o = comp.sql(pred)
          if o[0] != 'script': res = o; break
      outcomes.add((kind, res[1] if res else 'accepted'))
      if res is None:
        bad('type-clash-accepted/%s' % kind, 'corrupted program was accepted by the type checker', text, kind)
      elif res[0] != 'diag':
        bad('internal-error/%s/%s' % (kind, res[1]), 'rejected with %s instead of a diagnostic: %s' % (res[1], res[2][:120]), text, kind)
      elif res[1] != 'TypeErrorCaughtException':
        # another diagnostic class is still a rejection; recorded separately, not a violation of "rejected"
        stats['rejected_by_other_diagnostic'] = stats.get('rejected_by_other_diagnostic', 0) + 1
    if len(samples) < 1: samples.append(dict(program=typed_program(c.program.stmts).text(), model_signatures={p: {str(k): typemodel.render(t) for k, t in s.items()} for p, s in model_sigs.items()}))
  by = {}
  for v in viol: by.setdefault(v['sig'], []).append(v)
  outv = []
  for s, vs in by.items():
    vs.sort(key=lambda v: len(v['case']['text'])); outv.extend(vs[:2]); stats['viol_' + s] = len(vs)
  for k, n in kinds.items(): stats['kind_' + k] = n
  return dict(stats=stats, viol=outv, samples=samples, keys=dict(outcomes=outcomes))


def coverage(ctx, merged):
  s = merged['stats']
  return dict(
    states=s.get('accepted_variants', 0) + s.get('corrupted', 0), transitions=s.get('compiles', 0), traces_validated_against_impl=s.get('comparisons', 0) + s.get('signatures_checked', 0) + s.get('values_checked', 0),
    samples=merged['samples'], exhaustive=True, evaluations=s.get('compiles', 0), distinct_nontrivial=len(merged['keys'].get('outcomes', ())),
    rule='state = one typed program variant (order permutation) or one single-point type corruption at one insertion position; transition = one type-checked compilation; distinct_nontrivial = distinct (kind, verdict) pairs',
    signature_level_program_orders=s.get('signature_level_programs', 0), base_programs=s.get('base_programs', 0), order_variants=s.get('accepted_variants', 0), corruptions=s.get('corrupted', 0), corruption_kinds={k[5:]: v for k, v in s.items() if k.startswith('kind_')},
    signatures_checked=s.get('signatures_checked', 0), values_checked=s.get('values_checked', 0), skipped_not_ground_typed=s.get('skipped_untyped', 0),
    rejected_by_other_diagnostic=s.get('rejected_by_other_diagnostic', 0), cap_hit=False,
    bounds=dict(base='every 12th (thorough 3rd) program of the C01/C02 families (denser for EXPR/FUNC/INJ) whose every column has a ground type'))


def replay(ctx, case):
  impl.accelerate_library_parse()
  comp = impl.Compiled(case['text'])
  if case.get('kind') and not str(case['kind']).startswith('sig:') or case.get('kind', '').startswith('sig:'):
    res = comp.err
    if res is None:
      import re
      for pred in re.findall(r'^([A-Z]\w*)\(', case['text'], re.M):
        o = comp.sql(pred)
        if o[0] != 'script': res = o; break
    if res is None: return [dict(sig='type-clash-accepted/%s' % case['kind'], what='still accepted', case=case)]
    return []
  if comp.err: return [dict(sig='well-typed-program-rejected/%s' % comp.err[1], what=comp.err[2][:200], case=case)]
  return []


LEVEL_TEXT = ('For a stratified set of generated programs whose every column has a ground type known to the model (numbers, strings, booleans, lists, closed records, aggregation, combines, injection, '
              'functional predicates), compiled with type checking on: (i) the program and every permutation of its statements and of the conjuncts of each body must be accepted and every predicate '
              'must get exactly the model\'s signature; (ii) every single-point type corruption (a typed variable forced to a second ground type by a literal, a string operator, Size, a field access, '
              'list membership, a comparison; a rule or fact putting a string into a numeric column) inserted at the first and last (thorough: every) position of the body must be rejected with a diagnostic; (iii) every value returned '
              'by the accepted program on SQLite must inhabit the inferred column type.')
LEVEL_NOTE = 'Trusted: mc/typemodel.py (60-line bottom-up typing of the program model). Bounded: stratified base set; one corruption at a time.'
