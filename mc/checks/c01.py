"""C01 - compiled SQL returns exactly the multiset the program denotes (SQLite)."""
import base64, pickle
from .. import impl, explore, semcheck, families

PID = 'C01'
LEVEL = 'model_checking'
TECHNIQUE = 'bounded-exhaustive enumeration of core-fragment programs x all small databases, real pipeline on SQLite vs a reference evaluator'
ASSUMPTIONS = ['small scope: <=3 body literals over A/2, B/1, terms x,y,z,1; all multisets of <=2 rows over {1,2} per table (90 databases) plus 3 fact-form databases', 'beyond the small grammars only by representatives: 145 databases with values -1, 0, 10, 0.5 (<=2 rows), and the WIDE family (12-13 columns / body literals / variables, 7 rules or disjuncts, 4-5 levels of nesting, chains of 6 intermediate predicates, 11 predicates side by side)',
               'corners listed in DESIGN 2.4 (integer division, null keys, reserved-word identifiers) are not generated']

_CASES = None


def cases(thorough):
  global _CASES
  if _CASES is None or _CASES[0] != thorough:
    _CASES = (thorough, list(families.c01_cases(thorough)))
  return _CASES[1]


def plan(ctx):
  n = len(cases(ctx.thorough))
  nsh = min(n, 256 if ctx.thorough else 192)
  return [('sem', ctx.thorough, i, nsh) for i in range(nsh)]


def classify(case, pred, db, exp, got, diff):
  if case.family == 'RECORD-FIELD-ORDER' and got[0] == 'rows': return 'F46-sqlite-record-written-with-fields-in-another-order-is-another-value'
  return None


def work(task):
  _, thorough, shard, nsh = task
  cs = cases(thorough)
  h = semcheck.Harness()
  fam = {}
  for i in range(shard, len(cs), nsh):
    c = cs[i]
    fam[c.family] = fam.get(c.family, 0) + 1
    h.run_case(c, classify, prepared_rules=getattr(c, 'prepared', None))
  res = h.result(); h.close()
  for k, v in fam.items(): res['stats']['family_' + k] = v
  for v in res['viol']:
    v['case']['pickle'] = base64.b64encode(pickle.dumps(find(cs, v['case']['text']))).decode()
  return res


def find(cs, text):
  for c in cs:
    if c.text() == text or text.endswith(c.text().split('\n', 1)[1]): return c
  return None


def coverage(ctx, merged):
  s = merged['stats']
  return dict(
    states=s.get('programs', 0), transitions=s.get('executions', 0), traces_validated_against_impl=s.get('comparisons', 0),
    samples=merged['samples'], exhaustive=True, evaluations=s.get('executions', 0), distinct_nontrivial=s.get('nontrivial', 0),
    rule='state = one generated program (distinct rendered text); transition = one (program, predicate, database) execution of the emitted SQL; '
         'non-trivial = program whose result is non-empty somewhere and differs between at least two databases',
    programs=s.get('programs', 0), compiles=s.get('compiles', 0), distinct_outcomes=len(merged['keys'].get('outcomes', ())),
    families={k[7:]: v for k, v in s.items() if k.startswith('family_')}, reference_model_unsupported=s.get('unsupported', 0),
    bounds=dict(body_literals=3 if ctx.thorough else 2, db_rows_per_table='2 (thorough: 3 for the CONS/DISJ/EXPR/FUNC/INJ families)', values=[1, 2]), cap_hit=False)


def replay(ctx, case):
  c = pickle.loads(base64.b64decode(case['pickle']))
  h = semcheck.Harness()
  if 'db' in case: c.dbs = [case['db']]; c.fact_dbs = []
  c.preds = [case['pred']] if 'pred' in case else c.preds
  h.run_case(c, classify)
  r = h.result(); h.close()
  return r['viol']


LEVEL_TEXT = ('Every program of six finite grammars (conjunctive queries, extra comparison/assignment/in conjuncts, disjunction and multiple rules, expression '
              'trees, functional predicates, injectible predicates with clashing variable names) up to the tier bound is compiled by the real pipeline and its SQL executed on '
              'SQLite over all 90 small table-form databases (incl. empty tables and duplicate rows) and 3 fact-form databases; rows and column names are compared with a '
              'reference evaluator of the documented multiset semantics. Exhaustive within the bound, so a translation slip that shows on any small program/database is found.')
LEVEL_NOTE = ('Trusted: the program printer and the ~600-line reference evaluator (mc/refsem.py), SQLite 3.40. Bounded: <=2 (thorough 3) body literals, expression depth <=2, '
              'two-valued domains, <=2 rows per table; larger shapes and other values only through the fixed representatives of the WIDE family and the value databases.')
