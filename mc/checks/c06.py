"""C06 - the C++ and Python parsers accept the same programs and build the same rules."""
import itertools, os, glob, json, re, hashlib
from .. import impl, explore, parsers

PID = 'C06'
LEVEL = 'model_checking'
TECHNIQUE = 'bounded-exhaustive enumeration of the documented grammar (every statement / literal / operator-pair form) and of all single-token corruptions of a statement set, both parsers in one process, trees compared'
ASSUMPTIONS = ['generator derived from docs/syntax.md production by production, nesting depth <=2 (thorough 3)', 'corruption = delete / duplicate / replace one token by each of 23 tokens']

ATOMS = ['x', 'y2', '1', '2.5', '.5', '5.', '1e3', '3u', '"s"', "'q'", '"""t"""', 'true', 'false', 'null', '[]', '[1, x]', '{a: 1}', '{a: x, b: "s"}', '{}', 'r.a', 'r.a.b', 'l[0]', 'l[x][1]',
         'F(x)', 'F()', 'G(x, k: 2)', 'G(k:)', '-x', '!b', 'P', 'nil', 'F(..r)', '(x)', '{a:, b:}', '"a\\"b"', "x_1y", '`t.u`(x)', 'a.b.C(x)', '{a: 1, ..r}', '{..r}', '{s? += y}', '{a: 1, s? Max= y}', '"\\"', '"x\\("', '"C:\\d\\"', '"\\)"', "'\\\\'", 'then_v', 'else_v', 'limit_value', 'x_in', 'is_y', 'distinct_z', 'if_x', 'combine_x', 'in_list']
BINOPS = ['||', '&&', '->', '==', '<=', '>=', '<', '>', '!=', '=', ' in ', ' is not ', ' is ', '++?', '++', '+', '-', '*', '/', '%', '^']
CORRUPT = ['(', ')', '[', ']', '{', '}', ',', ';', ':', ':-', '|', '~', '=', '"', "'", '#', '/*', '?', '.', '-', 'x', 'in', 'distinct']

EXTRA = ['G := F(A: B);', 'G := F();', 'G := F(A: B, C: D);', '@Ground(T);', '@OrderBy(T, "a desc", "b");', '@Recursive(T, 5, stop: S);', '@Recursive(T, -1);', '@Limit(T, 3);',
         '@Engine("sqlite", type_checking: true);', '@DefineFlag("f", "v");', '@AttachDatabase("db", "file.db");', '@With(T);',
         'T(x) :- A(x) | B(x), ~C(x) | (D(x), E(x));', 'T(x) distinct :- A(x);', 'T(x) order_by("a") limit(3) :- A(x);', 'T(x) distinct order_by("a") :- A(x);', 'T(x) limit(2) :- A(x);',
         'T(x) += 1 :- A(x);', 'T(x) List= y :- A(x, y);', 'T(x, ..r) :- A(x, ..r);', 'T(..r) :- A(..r), ~B(..r);', 'F(x) --> x + 1;', 'T(a:, b: 1, `c d`: 2) :- A(a:);',
         'T(x) :- x Max= (y :- A(y));', 'T(x) :- x += (y :- A(y)), y List= 5;', 'T(x) :- A(x) => B(x);', 'T(x) :- ~(A(x), B(x));', 'T(x) :- `my.table`(x);', 'T(x) :- my.table(x);',
         'T(x) couldbe :- A(x);', 'T(x) cantbe;', 'T() :- A();', 'T();', 'T(x) :- A(x),;', 'T(x) :- A(x);;', '# only comment', '/* c */ T(1); # x\nT(2);', 'T(1)', 'T("a;b", \'c;d\');',
         'T(x) :- A(x), x in Range(5), y in [1,2], (z in l);', 'T(x) :- x == (combine += 1);', 'T(x) :- A(x), x is null, y is not null;', 'import a.b.C;', 'import a.b.C as D;\nT(x) :- D(x);',
         'T(x? += 1, y? Max= z) distinct :- A(x, z);', 'T(x) = y :- A(x, y);', 'T(x) Max= y :- A(x, y);', 'T(x) :- A(x), ~B(x), ~(C(x) | D(x));', 'T(x) :- (A(x) | B(x)), (C(x) | D(x));',
         'T(x) :- A(x), y == (if x > 1 then 2 else if x > 0 then 1 else 0);', 'T(x) :- A(x) , B(x)  ;', 'T(x,y):-A(x,y);', 'T(x) :-\n  A(x),\n  B(x);\n', 'T(x)\n:- A(x);', 'T( x ) :- A( x );',
         'T(x) :- A(x), x > 1 && x < 3 || !(x == 2);', 'T(x) :- l == [1, 2, 3], x in l;', 'T({a: 1, b: {c: [1, {d: 2}]}});', 'T(r.a.b, l[0][1]) :- A(r, l);', 'T("x") :- A("y");', "T('x');",
         'T(x) :- A(x: x, y: 1);', 'T(x) = limit_value :- A(limit_value);', 'T(y) :- A(x), y == (if x > 1 then then_v else else_v);', 'T(distinct_x) distinct :- A(distinct_x);', 'T(order_by_x) order_by("col0") :- A(order_by_x);', 'T(x) order_by(a: "b") :- A(x);', 'T(x) limit(n: 3) :- A(x);', 'T(x) order_by("a", b: "c") limit(2) :- A(x);', 'T(x:) :- A(x:);', 'T(-1, - 2, 3 - 1, (-x)) :- A(x);', 'T(1.5e3);', 'T(x) :- A(x), x != 1, x >= 2, x <= 3;']


def exprs(depth):
  for a in ATOMS: yield a
  small = ATOMS[:14] + ['F(x)', 'r.a', '-x', '[1, x]']
  for op in BINOPS:
    for a, b in itertools.product(small, repeat=2):
      yield '%s%s%s' % (a, op if op.startswith(' ') else ' ' + op + ' ', b)
  for op1, op2 in itertools.product(BINOPS, repeat=2):
    yield 'x %s y %s 2' % (op1.strip(), op2.strip())
    yield '(x %s y) %s 2' % (op1.strip(), op2.strip())
    yield 'x %s (y %s 2)' % (op1.strip(), op2.strip())
    if depth >= 3:
      yield 'x %s y %s z %s 2' % (op1.strip(), op2.strip(), op1.strip())
      yield 'F(x %s y) %s [z %s 2]' % (op1.strip(), op2.strip(), op1.strip())
  if depth >= 3:
    ops3 = ['||', '&&', '==', '<', '!=', ' in ', ' is ', '++', '+', '-', '*', '->']
    for o1, o2, o3 in itertools.product(ops3, repeat=3):
      yield 'x %s y %s z %s 2' % (o1.strip(), o2.strip(), o3.strip())
    for op in BINOPS:
      for a, b in itertools.product(ATOMS, repeat=2):
        yield '%s%s%s' % (a, op if op.startswith(' ') else ' ' + op + ' ', b)
    for a in ATOMS:
      for b in ATOMS[:10]:
        yield 'F(%s, [%s, {f: %s}])' % (a, b, a)
        yield '{a: [%s], b: G(k: %s)}.a' % (a, b)
  for a in ATOMS[:12]:
    yield '(if x > 1 then %s else %s)' % (a, a)
    yield '(if x > 1 then %s else if y then 2 else %s)' % (a, a)
    yield 'Sum{%s :- A(x)}' % a
    yield '(combine Max= %s :- A(x), B(x))' % a
    yield '[%s, %s]' % (a, a)
    yield '{f: %s, g: %s}' % (a, a)
    yield 'F(%s, h: %s)' % (a, a)
    yield '-%s' % a
    yield '!%s' % a


def statements(depth):
  for e in exprs(depth):
    yield 'T(%s) :- A(x);' % e
    yield 'T(x) :- A(x), z == %s;' % e
    yield 'T(x) = %s;' % e
    yield 'T(x) :- A(x), %s;' % e
    yield 'T(x, v? Max= %s) distinct :- A(x);' % e
  for s in EXTRA: yield s


def wide_inputs():
  """inputs beyond the nesting / length bounds of the generator, one family per dimension"""
  out = []
  for k in (5, 12, 25, 40):
    out.append('T(%sx%s) :- A(x);' % ('(' * k, ')' * k))
    out.append('T(%s1%s);' % ('[' * k, ']' * k))
    out.append('T(%s1%s);' % ('{a: ' * k, '}' * k))
    out.append('T(x) :- %sA(x)%s;' % ('~(' * k, ')' * k))
    out.append('T(%sx%s) :- A(x);' % ('F(' * k, ')' * k))
    out.append('T(y) :- A(x), y == %s0%s;' % ('(if x > 1 then 1 else ' * k, ')' * k))
    out.append('T(y) :- y == %s1 :- A(x)%s;' % ('Sum{' * min(k, 12), '}' * min(k, 12)))
    out.append('T(r%s, l%s) :- A(r, l);' % ('.a' * k, '[0]' * k))
    out.append('T(x) :- %sA(x)%s;' % ('(' * k, ' | B(x))' * k))
    out.append('T(%s);' % ' + '.join(['x'] * min(k * 5, 125)))
    out.append('T(%s);' % ' '.join('x %s' % op for op in (['+', '*', '-', '/', '++', '&&', '||', '==', '<', '->', '%', '^'] * k)[:k * 3]) + ' x')
    out.append('T(%s) :- A(%s);' % (', '.join('x%d' % i for i in range(k * 3)), ', '.join('x%d' % i for i in range(k * 3))))
    out.append('T(%s) :- A(x);' % ', '.join('a%d: x' % i for i in range(k * 3)))
    out.append('T(x) :- %s;' % ', '.join('A%d(x)' % i for i in range(k * 3)))
    out.append('T(x) :- %s;' % ' | '.join('A%d(x)' % i for i in range(k * 3)))
    out.append('\n'.join('T%d(x) :- A(x), x > %d;' % (i, i) for i in range(k * 8)))
    out.append('T(%s);' % ('x' * (k * 20)))
    out.append('T("%s");' % ('ab c;, :- #' * (k * 10)))
    out.append('T(%s, %s.%s, %se%d);' % ('9' * k, '1' * k, '5' * k, '1', k))
    out.append('#%s\nT(1); /* %s */ T(2);%s' % (' c' * k * 20, ' d ' * k * 20, '\n' * k))
  out += ['T(%s);' % ('9' * 400), 'T(0.%s);' % ('1' * 400), 'T(%s.5, x) :- A(x), x < %s;' % ('12' * 200, '7' * 330), 'T(%s);' % ('0' * 400 + '1')]
  # characters outside ASCII in strings, comments and quoted identifiers; other line conventions
  out += ['T("caf\u00e9", x) :- A(x);', 'T("\u65e5\u672c", "\U0001F600") :- A(x), x == "\u00df";', '# comment \u00e9\u00e8 \u65e5\nT(x) :- A(x);', '/* \u00e9 */ T(x) :- A(x); # \u00fc\nU(1);',
          'T(x) :- `t\u00e4ble`(x);', 'T(`\u00e9`: 1);', 'T(x) :- A(x), y == "\u00e9" ++ "z", z in ["\u00e0", "b"];', 'T("a\u00e9b") :- A(x) | B("\u00e9");',
          'T(x) :-\r\n  A(x),\r\n  B(x);\r\nU(1);\r\n', 'T(x)\t:-\tA(x),\tB(x);', 'T(x) :- A(x);\n\n\n\n   \n\t\nU(x) :- B(x);\n', ' \n T(1)  ;  \n ', 'T(1);\f\vT(2);', 'T(x) :- A(x) ,\u00a0B(x);',
          'T("\\u00e9");', 'T("tab\there", "nl\\n");', "T('\u00e9');", 'T("""multi\nline \u00e9""");']
  return out


def corruption_bases():
  out = list(EXTRA)
  es = list(exprs(2))
  for e in es[::97]:
    out.append('T(%s) :- A(x), z == %s;' % (e, e))
  return out


def corruptions(stmt):
  toks = [t for t, sp in parsers.tokens(stmt)]
  idx = [i for i, t in enumerate(toks) if not t.isspace()]
  seen = set()
  for i in idx:
    for repl in [None, 'DUP'] + CORRUPT:
      if repl is None: new = toks[:i] + toks[i + 1:]
      elif repl == 'DUP': new = toks[:i + 1] + toks[i:]
      else:
        if repl == toks[i]: continue
        new = toks[:i] + [repl] + toks[i + 1:]
      s = ''.join(new)
      if s not in seen:
        seen.add(s); yield s


def plan(ctx):
  impl.setup(ctx.repo)
  parsers.setup_cpp()
  depth = 3 if ctx.thorough else 2
  n1 = 96 if ctx.thorough else 48
  tasks = [('gen', depth, i, n1) for i in range(n1)]
  nb = len(corruption_bases())
  tasks += [('corrupt', i) for i in range(nb)]
  files = sorted(glob.glob(os.path.join(ctx.repo, 'integration_tests', '*.l')))
  for ch in explore.shards(files, 8): tasks.append(('files', ch))
  tasks.append(('imports',))
  tasks.append(('sequence',))
  for i in range(8): tasks.append(('wide', i, 8))
  return tasks


def cluster(text, py, cpp):
  """Narrow, input-derived signature of a disagreement: outcome classes of the two parsers + the syntactic feature involved."""
  feats = []
  if re.search(r'(?<!\|)\|\s*[:?=]', text): feats.append('pipe-as-field-name-or-aggregation-operator')
  elif re.search(r'[(,:]\s*\|(?!\|)|(?<!\|)\|\s*[,)]', text): feats.append('pipe-as-value')
  elif re.search(r'(order_by|limit)\s*\([^)]*\w+\s*:', text): feats.append('named-argument-in-denotation')
  elif re.search(r'[\u00a0\u2000-\u200b\u3000]', text): feats.append('non-ascii-whitespace')
  elif len(re.findall(r' [-+*/] ', text)) > 100: feats.append('operator-chain-over-100')
  if not feats: feats.append('other')
  def oc(o): return o[0] if o[0] != 'crash' else 'crash:' + o[1]
  return 'py=%s/cpp=%s/%s' % (oc(py), oc(cpp), '+'.join(feats))


def compare(text, stats, viol, import_root=None, kind='gen'):
  py, cpp = parsers.parse_both(text, import_root)
  stats['parses'] += 2; stats['comparisons'] += 1
  stats['accepted_by_both'] += (py[0] == 'ok' and cpp[0] == 'ok')
  stats['rejected_by_both'] += (py[0] == 'reject' and cpp[0] == 'reject')
  ok = (py[0] == cpp[0] == 'reject') or (py[0] == cpp[0] == 'ok' and py[1] == cpp[1])
  if ok: return py[0]
  if py[0] == cpp[0] == 'ok': what = 'both accept but the rule trees differ'; sig = 'trees-differ/' + kind
  else:
    what = 'python: %s, c++: %s' % (py[:2] if py[0] != 'ok' else 'accepts', cpp[:2] if cpp[0] != 'ok' else 'accepts')
    sig = cluster(text, py, cpp)
  viol.append(dict(sig=sig, what='%s | %r' % (what, text[:300]), case=dict(text=text, import_root=import_root)))
  return 'disagree'


def work(task):
  stats = dict(parses=0, comparisons=0, accepted_by_both=0, rejected_by_both=0, statements=0, corrupted=0, files=0); viol = []; samples = []; outcomes = set()
  if task[0] == 'gen':
    _, depth, shard, nsh = task
    for i, s in enumerate(statements(depth)):
      if i % nsh != shard: continue
      stats['statements'] += 1
      outcomes.add(compare(s, stats, viol))
    if shard == 0: samples.append(dict(kind='generated statement', text='T(x) :- A(x), z == (x ++? y) -> 2;'))
  elif task[0] == 'corrupt':
    base = corruption_bases()[task[1]]
    for s in corruptions(base):
      stats['corrupted'] += 1
      outcomes.add(compare(s, stats, viol, kind='corrupt'))
    if task[1] == 3: samples.append(dict(kind='single-token corruptions of', text=base, variants=stats['corrupted']))
  elif task[0] == 'sequence':
    # one process, several main files one after the other: what the experimental-syntax switch of one program leaves behind must not
    # change how either parser reads the next program
    inc = '# Signa inter verba conjugo, symbolum infixus evoco!\n'
    sens = ['Q(x) :- A(x) <=> B(x);', 'T(y) :- y == 2*F(1);', 'U(x ---y) :- x == 1, y == 2;', 'T(x) :- A(x), B(x);']
    broken = inc + 'T(y) :- y == 2*F(1;'
    for order in ([inc + sens[0]] + sens + [inc + sens[1]] + sens, sens + [inc + 'T(1);'] + sens, [inc + 'T(1);', inc + sens[2]] + sens[::-1], [broken] + sens + [broken, broken] + sens[::-1]):
      for t in order:
        stats['statements'] += 1
        outcomes.add(compare(t, stats, viol, kind='sequence'))
  elif task[0] == 'wide':
    for i, s_ in enumerate(wide_inputs()):
      if i % task[2] != task[1]: continue
      stats['statements'] += 1
      outcomes.add(compare(s_, stats, viol, kind='wide'))
  elif task[0] == 'imports':
    # the same module names with different contents under different import roots, parsed one after the other in ONE process
    import tempfile, shutil
    base = tempfile.mkdtemp(prefix='verif_c06_')
    try:
      mains = ['import lib.Pub;\nT(x) :- Pub(x);\n', 'import lib.Pub as P;\nimport d.other.Q;\nT(x) :- P(x) | Q(x);\n', 'import d.other.Q;\nimport lib.Pub;\nT(x) :- Q(x), Pub(x);\n']
      for k in range(4):
        root = os.path.join(base, 'root%d' % k); os.makedirs(os.path.join(root, 'd'))
        open(os.path.join(root, 'lib.l'), 'w').write('Priv(%d);\n%sPub(x) :- Priv(x)%s;\n' % (k, 'Helper(x) :- Priv(x);\n' if k % 2 else '', ', Helper(x)' if k % 2 else ''))
        open(os.path.join(root, 'd', 'other.l'), 'w').write(('import lib.Pub as Base;\nQ(x + %d) :- Base(x);\n' % k) if k < 2 else ('Q(%d);\nQ(%d);\n' % (k, k + 1)))
      # module files written with other line conventions (the main text reaches both parsers already decoded; imported files are read by each parser itself)
      for name, nl in (('crlf', b'\r\n'), ('cr', b'\r'), ('mixed', b'\n\r\n')):
        root = os.path.join(base, 'root_' + name); os.makedirs(os.path.join(root, 'd'))
        body = [b'Priv(1);', b'# comment', b'Pub(x) :-', b'  Priv(x),', b'  x > 0;', b'F(x) = (if', b' x > 1 then 1 else 2);', b'Helper(x) :- Priv(x)', b';']
        open(os.path.join(root, 'lib.l'), 'wb').write(nl.join(body) + nl)
        open(os.path.join(root, 'd', 'other.l'), 'wb').write(nl.join([b'import lib.Pub as Base;', b'Q(x + 1) :-', b'  Base(x);']) + nl)
        for mtext in mains + ['import lib.F;\nT(F(1));\n']:
          stats['files'] += 1
          outcomes.add(compare(mtext, stats, viol, import_root=root, kind='imports'))
      # modules sharing a base name (the prefix of each is made unique from its path components)
      root = os.path.join(base, 'root_shared')
      for path, val in (('a/util', 1), ('b/util', 2), ('util', 3), ('net/shared/util', 4), ('geo/shared/util', 5), ('net/util', 6)):
        os.makedirs(os.path.dirname(os.path.join(root, path)), exist_ok=True)
        open(os.path.join(root, path + '.l'), 'w').write('Priv(%d);\nVal(x) :- Priv(x);\n' % val)
      shared_mains = ['import a.util.Val as V1;\nimport b.util.Val as V2;\nT(x) :- V1(x) | V2(x);\n', 'import b.util.Val as V2;\nimport a.util.Val as V1;\nimport util.Val;\nT(x) :- V1(x) | V2(x) | Val(x);\n',
                      'import util.Val;\nimport geo.shared.util.Val as G;\nimport net.shared.util.Val as N;\nimport net.util.Val as M;\nT(x) :- Val(x) | G(x) | N(x) | M(x);\n',
                      'import net.util.Val as M;\nimport net.shared.util.Val as N;\nimport a.util.Val as A;\nT(x) :- M(x) | N(x) | A(x);\n']
      for mtext in shared_mains:
        stats['files'] += 1
        outcomes.add(compare(mtext, stats, viol, import_root=root, kind='imports'))
      # layout of the import statement itself: noise at each of its token boundaries
      imp = ['import', ' ', 'a.util.Val', ' ', 'as', ' ', 'V1', ';']
      for i in range(len(imp) + 1):
        for nz in (' ', '  ', '\n', '\t', '/* c */', ' # c\n'):
          if i in (0,) and nz.strip(): pass
          mtext = ''.join(imp[:i]) + nz + ''.join(imp[i:]) + '\nT(x) :- V1(x);\n'
          stats['files'] += 1
          outcomes.add(compare(mtext, stats, viol, import_root=root, kind='import-layout'))
      for mtext in ('import a.util.Val;import b.util.Val as W;T(x) :- Val(x) | W(x);', 'import a.util.Val ;\nT(x) :- Val(x);', '  import a.util.Val;\n\nT(x) :- Val(x);', 'T(x) :- Val(x);\nimport a.util.Val;'):
        stats['files'] += 1
        outcomes.add(compare(mtext, stats, viol, import_root=root, kind='import-layout'))
      for rep in range(2):
        for k in range(4):
          for mtext in mains:
            stats['files'] += 1
            outcomes.add(compare(mtext, stats, viol, import_root=os.path.join(base, 'root%d' % k), kind='imports'))
            outcomes.add(compare(mtext, stats, viol, import_root=[os.path.join(base, 'root%d' % k), os.path.join(base, 'root%d' % ((k + 1) % 4))], kind='imports'))
    finally:
      shutil.rmtree(base, ignore_errors=True)
  else:
    for f in task[1]:
      stats['files'] += 1
      outcomes.add(compare(open(f).read(), stats, viol, import_root=impl.REPO, kind='file'))
  by = {}
  for v in viol: by.setdefault(v['sig'], []).append(v)
  out = []
  for s, vs in by.items():
    vs.sort(key=lambda v: len(v['case']['text'])); out.extend(vs[:2]); stats['viol_' + s] = len(vs)
  return dict(stats=stats, viol=out, samples=samples, keys=dict(outcomes=outcomes))


def coverage(ctx, merged):
  s = merged['stats']
  return dict(
    states=s.get('statements', 0) + s.get('corrupted', 0) + s.get('files', 0), transitions=s.get('parses', 0), traces_validated_against_impl=s.get('comparisons', 0),
    samples=merged['samples'], exhaustive=True, evaluations=s.get('comparisons', 0), distinct_nontrivial=s.get('accepted_by_both', 0),
    rule='state = one program text (generated statement, single-token corruption, or integration file); transition = one parse by one parser; non-trivial = accepted by both parsers with equal trees',
    generated_statements=s.get('statements', 0), corrupted_strings=s.get('corrupted', 0), integration_files=s.get('files', 0),
    accepted_by_both=s.get('accepted_by_both', 0), rejected_by_both=s.get('rejected_by_both', 0),
    bounds=dict(atoms=len(ATOMS), binary_operators=len(BINOPS), nesting=3 if ctx.thorough else 2, corruption_tokens=len(CORRUPT) + 2, corruption_bases=len(corruption_bases())), cap_hit=False)


def replay(ctx, case):
  impl.setup(ctx.repo); parsers.setup_cpp()
  stats = dict(parses=0, comparisons=0, accepted_by_both=0, rejected_by_both=0); viol = []
  compare(case['text'], stats, viol, case.get('import_root'))
  return viol


LEVEL_TEXT = ('A syntactic generator derived from docs/syntax.md (38 atom forms incl. every literal form, 21 binary operators in every ordered pairing and parenthesisation, unary operators, the combine '
              'forms, if-chains, lists/records/calls, every statement form incl. denotations, functor applications, annotations, imports) is enumerated completely (about 45k statements), plus every '
              'single-token corruption (delete, duplicate, replace by each of 23 tokens) of ~100 base statements, plus the 135 integration programs; each text is parsed by both parsers in the same '
              'process: both must accept with identical rule trees or both must raise ParsingException.')
LEVEL_NOTE = 'Trusted: g++ building the current logica_parse.cpp; JSON canonicalisation of the rule trees. Bounded: nesting <=2 (thorough 3), single corruptions.'
