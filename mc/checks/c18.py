"""C18 - order_by and limit select the first K rows in the given order."""
import base64, pickle
from .. import impl, explore, semcheck, families, refsem, compare, lang, functor_model
from . import c01

PID = 'C18'
LEVEL = 'model_checking'
TECHNIQUE = 'bounded-exhaustive enumeration of ordered/limited predicates (bodies x order specs x K x annotation/denotation form x use) over all databases with a total order, SQLite vs reference evaluator (sequence for the final predicate)'
ASSUMPTIONS = ['databases are restricted to those on which the ordering keys totally order the rows of the ordered predicate (ties are unspecified)']

_CASES = None


def cases(thorough):
  global _CASES
  if _CASES is None or _CASES[0] != thorough:
    _CASES = (thorough, list(families.c18_cases(thorough)))
  return _CASES[1]


def plan(ctx):
  n = len(cases(ctx.thorough))
  nsh = min(n, 128)
  return [('ord', ctx.thorough, i, nsh) for i in range(nsh)]


_total = {}


def prefilter(case, d):
  """the ordering keys are a total order of P's rows on this database"""
  rules = getattr(case, 'plain_rules')
  key = (id(case), repr(d))
  tables = {t: (semcheck.SCHEMAS['AB'][t], [tuple(r) for r in d.get(t, [])]) for t in ('A', 'B')}
  cols, rows = refsem.Evaluator(rules, tables).rows(case.ordered_pred)
  if not case.info['order']:
    return case.info['K'] == 0 or case.info['K'] >= len(rows)     # no order: only 'none' or 'all' is determined
  idx = [cols.index(o.split()[0]) for o in case.info['order'] if o.strip().upper() != 'DESC']
  keys = [tuple(r[i] for i in idx) for r in rows]
  return len(set(keys)) == len(keys)


def prepare(c):
  origin = {}
  rules = functor_model.expand(c.program, origin)
  plain = [r.replace(order_by=None, limit=None) for r in rules]
  ol = dict(c.ol or {})
  # a functor clone inherits the annotations of the predicate it was made from
  for new, old in origin.items():
    if old in ol: ol[new] = ol[old]
    for r in rules:
      if r.pred == old and (r.order_by or r.limit is not None): ol[new] = (r.order_by, r.limit)
  c.ol = ol or None
  c.plain_rules = plain
  c.ordered_pred = 'P'
  return rules


def classify(case, pred, db, exp, got, diff):
  return None


def work(task):
  _, thorough, shard, nsh = task
  cs = cases(thorough)
  h = semcheck.Harness(); h.stats.update(limit_effective=0)
  for i in range(shard, len(cs), nsh):
    c = cs[i]
    rules = prepare(c)
    compile_twin(c, h)
    h.run_case(c, classify, ordered=c.info['ordered'], prepared_rules=rules, prefilter=prefilter)
  res = h.result(); h.close()
  for v in res['viol']:
    v['case']['pickle'] = base64.b64encode(pickle.dumps(c01.find(cs, v['case']['text']))).decode()
  return res


def compile_twin(c, h):
  """History of length two: the same process first compiles the program WITHOUT its order_by / limit (same predicate names), then the
  case itself; whatever the first compilation leaves behind must not change what the second one means."""
  stmts = []
  for st in c.program.stmts:
    if isinstance(st, lang.Rule): st = st.replace(order_by=None, limit=None)
    elif isinstance(st, lang.Ann) and st.text.startswith(('@OrderBy', '@Limit')): continue
    stmts.append(st)
  twin = lang.Program(stmts)
  for p in c.preds:
    impl.Compiled(twin.text()).sql(p)
  h.stats['twin_compiles'] = h.stats.get('twin_compiles', 0) + len(c.preds)


def coverage(ctx, merged):
  cov = c01.coverage(ctx, merged)
  cov['bounds'] = dict(bodies=8 if ctx.thorough else 5, orders=5 if ctx.thorough else 4, K=[None, 0, 1, 2, 3, 5], uses=['final', 'plain', 'join', 'agg', 'combine', 'negated', 'functor'],
                       databases='all sets of <=4 rows over {1,2,3}x{1,2} in scrambled insertion order x 2 B tables, filtered to total orders')
  return cov


def replay(ctx, case):
  global _CASES
  c = pickle.loads(base64.b64decode(case['pickle']))
  if 'db' in case: c.dbs = [case['db']]; c.fact_dbs = []
  _CASES = (False, [c])
  return work(('ord', False, 0, 1))['viol']


LEVEL_TEXT = ('Every combination of 8 bodies x 5 order specifications (asc/desc, two keys) x K in {absent,0,1,2,3,5} x annotation and denotation form x 7 uses (final predicate: exact row '
              'sequence; plain, joining, aggregating, combine, negated and functor-clone consumers: multiset computed from exactly the first K rows) is compiled and executed on every '
              'database of <=4 distinct rows on which the keys are a total order.')
LEVEL_NOTE = 'Trusted: reference evaluator + sort. Bounded: two-column predicates, <=4 rows; ties between ordering keys are not generated (unspecified).'
