"""C20 - built-in functions and aggregates on SQLite compute their documented meaning.

Scalar built-ins: all argument tuples from small typed domains, table form (arguments are rows of an Args table, one
compile per built-in) and literal form (arguments inlined).  Aggregates: every sequence of <=4 (thorough 5) rows over
{a,b,c} x {1,2,3} - i.e. every multiset in every arrival order - through the compiled predicate."""
import itertools, json
from .. import impl, explore
from ..compare import norm_got, fl
from ..refsem import LV

PID = 'C20'
LEVEL = 'model_checking'
TECHNIQUE = 'exhaustive enumeration of argument tuples / input row sequences per built-in, compiled and executed on SQLite, vs plain Python definitions'
ASSUMPTIONS = ['corners of DESIGN 2.4 not generated: non-exact integer division, % on negative operands, Element out of range, Split with an empty separator, Least/Greatest with one argument, nested lists',
               'ties: any admissible selection accepted for ArgMin/ArgMax(K); element order of List/Set/++= free']

INTS = [-2, -1, 0, 1, 2, 3, 10]
FLOATS = [0.5, 2.0]
FLISTS = [[0.5, 2, 10], [2.5, -1]]
STRS = ['', 'a', 'ab', 'a,b', 'a\\b', '\\']
ILISTS = [[], [1], [2, 1], [3, 1, 2], [1, 1], [2, 2, 1], [10, 2], [-1, -2], [2, 10, -1], [5, 3, 11, 2, 10, 1, 3, 12, 0, -4, 7, 2, 100]]
SLISTS = [[], ['a'], ['b', 'a'], ['ab', '', 'a'], ['b', 'B', '!a'], ['k', 'a', 'j', 'b', 'i', 'c', 'h', 'd', 'g', 'e', 'f', 'a', '10', '9']]


def lit(v):
  if isinstance(v, bool): return 'true' if v else 'false'
  if isinstance(v, str) and '\\' in v and '"' not in v: return '"%s"' % v        # a double-quoted literal has no escapes: the backslash is written as it is
  if isinstance(v, (int, float)): return '(%r)' % v if v < 0 else repr(v)
  if isinstance(v, str): return json.dumps(v)
  if isinstance(v, list): return '[%s]' % ', '.join(lit(x) for x in v)
  raise ValueError(v)


def div(a, b):
  return a / b


def scalar_builtins():
  """name -> (expression template over {0},{1},{2}, list of argument tuples, python function)"""
  B = {}
  nums = INTS + FLOATS
  B['add'] = ('({0} + {1})', list(itertools.product(nums, nums)), lambda a, b: a + b)
  B['sub'] = ('({0} - {1})', list(itertools.product(nums, nums)), lambda a, b: a - b)
  B['mul'] = ('({0} * {1})', list(itertools.product(nums, nums)), lambda a, b: a * b)
  B['neg'] = ('(-{0})', [(a,) for a in nums], lambda a: -a)
  pos = [1, 2, 3, 10]
  B['neg_sub'] = ('(-{0} - {1})', list(itertools.product(pos, pos)), lambda a, b: -a - b)              # a leading unary minus binds to its operand only
  B['neg_sub3'] = ('(-{0} - {1} - {2})', list(itertools.product(pos[:3], repeat=3)), lambda a, b, c: -a - b - c)
  B['neg_add'] = ('(-{0} + {1})', list(itertools.product(pos, pos)), lambda a, b: -a + b)
  B['neg_mul_sub'] = ('(-{0} * {1} - {2})', list(itertools.product(pos[:3], repeat=3)), lambda a, b, c: -a * b - c)
  B['sub_sub'] = ('({0} - {1} - {2})', list(itertools.product(pos[:3], repeat=3)), lambda a, b, c: a - b - c)
  B['sub_add'] = ('({0} - {1} + {2})', list(itertools.product(pos[:3], repeat=3)), lambda a, b, c: a - b + c)
  B['add_mul'] = ('({0} + {1} * {2})', list(itertools.product(pos[:3], repeat=3)), lambda a, b, c: a + b * c)
  B['mul_add'] = ('({0} * {1} + {2})', list(itertools.product(pos[:3], repeat=3)), lambda a, b, c: a * b + c)
  B['sub_mul'] = ('({0} - {1} * {2})', list(itertools.product(pos[:3], repeat=3)), lambda a, b, c: a - b * c)
  B['cmp_arith'] = ('({0} + {1} < {2} * 2)', list(itertools.product(pos[:3], repeat=3)), lambda a, b, c: a + b < c * 2)
  B['div'] = ('({0} / {1})', [(a, b) for a in nums for b in nums if b != 0 and (isinstance(a, float) or isinstance(b, float) or a % b == 0)], lambda a, b: div(a, b))
  B['mod'] = ('({0} % {1})', [(a, b) for a in (0, 1, 2, 3, 5, 7) for b in (1, 2, 3)], lambda a, b: a % b)
  for op, f in (('==', lambda a, b: a == b), ('!=', lambda a, b: a != b), ('<', lambda a, b: a < b), ('<=', lambda a, b: a <= b), ('>', lambda a, b: a > b), ('>=', lambda a, b: a >= b)):
    B['cmp' + op] = ('({0} %s {1})' % op, list(itertools.product(nums, nums)), f)
    B['scmp' + op] = ('({0} %s {1})' % op, list(itertools.product(STRS, STRS)), f)
  bools = [True, False]
  B['and'] = ('({0} && {1})', list(itertools.product(bools, bools)), lambda a, b: a and b)
  B['or'] = ('({0} || {1})', list(itertools.product(bools, bools)), lambda a, b: a or b)
  B['not'] = ('(!{0})', [(a,) for a in bools], lambda a: not a)
  B['Range'] = ('Range({0})', [(n,) for n in (-2, -1, 0, 1, 2, 3, 5, 12, 101)], lambda n: list(range(n)))
  B['Size'] = ('Size({0})', [(l,) for l in ILISTS + SLISTS], lambda l: len(l))
  B['Element'] = ('Element({0}, {1})', [(l, i) for l in ILISTS + SLISTS for i in range(len(l))], lambda l, i: l[i])
  B['Subscript'] = ('{0}[{1}]', [(l, i) for l in ILISTS + SLISTS for i in range(len(l))], lambda l, i: l[i])
  B['in'] = ('({0} in {1})', [(a, l) for l in ILISTS for a in (0, 1, 2, 3)] + [(a, l) for l in SLISTS for a in STRS], lambda a, l: a in l)
  B['Sort'] = ('Sort({0})', [(l,) for l in ILISTS + SLISTS + FLISTS], lambda l: sorted(l))
  B['ArrayConcat'] = ('ArrayConcat({0}, {1})', list(itertools.product(ILISTS, ILISTS)) + list(itertools.product(SLISTS, SLISTS)), lambda a, b: a + b)
  B['concat'] = ('({0} ++ {1})', list(itertools.product(STRS, STRS)), lambda a, b: a + b)
  B['concat3'] = ('({0} ++ {1} ++ {2})', list(itertools.product(STRS[:3], STRS, STRS[:3])), lambda a, b, c: a + b + c)
  B['Join'] = ('Join({0}, {1})', [(l, s) for l in ILISTS + SLISTS for s in (',', '', ', ')], lambda l, s: s.join(str(x) for x in l))
  B['Split'] = ('Split({0}, {1})', [(s, sep) for s in STRS + ['a,b,', ',', 'a, b'] for sep in (',', 'a', ', ')], lambda s, sep: s.split(sep))
  B['ToString'] = ('ToString({0})', [(a,) for a in INTS + FLOATS + STRS], lambda a: str(a))
  B['ToInt64'] = ('ToInt64({0})', [(a,) for a in INTS + FLOATS + ['12', '-3', '0']], lambda a: int(a))
  B['Least'] = ('Least({0}, {1})', list(itertools.product(nums, nums)), lambda a, b: min(a, b))
  B['Greatest'] = ('Greatest({0}, {1})', list(itertools.product(nums, nums)), lambda a, b: max(a, b))
  B['Least3'] = ('Least({0}, {1}, {2})', list(itertools.product(INTS[1:5] + [10], repeat=3)), lambda a, b, c: min(a, b, c))
  B['Greatest3'] = ('Greatest({0}, {1}, {2})', list(itertools.product(INTS[1:5] + [10], repeat=3)), lambda a, b, c: max(a, b, c))
  B['LeastS'] = ('Least({0}, {1})', list(itertools.product(STRS, STRS)), lambda a, b: min(a, b))
  B['if'] = ('(if {0} < {1} then {0} else {1})', list(itertools.product(INTS, INTS)), lambda a, b: a if a < b else b)
  B['SizeRange'] = ('Size(Range({0}))', [(n,) for n in (0, 1, 2, 3)], lambda n: n)
  B['ElementRange'] = ('Element(Range({0}), {1})', [(n, i) for n in (1, 2, 3, 12) for i in range(n)], lambda n, i: i)
  B['SortConcat'] = ('Sort(ArrayConcat({0}, {1}))', list(itertools.product(ILISTS[:4], ILISTS[:4])), lambda a, b: sorted(a + b))
  return B


def norm(v):
  """python expected value -> comparable"""
  if isinstance(v, bool): return int(v)
  if isinstance(v, float): return fl(v)
  if isinstance(v, list): return LV(norm(x) for x in v)
  return v


def ng(v):
  v = norm_got(v)
  if isinstance(v, LV): return LV(ng(x) if not isinstance(x, (LV,)) else x for x in v)
  return v


AGG_ROWS = [(k, v) for k in 'abc' for v in (1, 2, 3)]
AGG_ROWS_ZERO = [(k, v) for k in ('', 'a') for v in (0, -1, 2)]      # "including ... zero": values and keys that are falsy in Python


def k_smallest_ok(got, rows, K, largest=False):
  """got: list of keys. Admissible iff it is the keys of K entries with the K smallest (largest) values, listed in
  non-decreasing (non-increasing) order of value (ties in any order)."""
  n = min(K, len(rows))
  if not isinstance(got, (list, tuple)) or len(got) != n: return False
  vals = sorted((v for _, v in rows), reverse=largest)[:n]
  # assign got[i] to a distinct row (got[i], vals[i])
  pool = list(rows)
  for key, v in zip(got, vals):
    if (key, v) in pool: pool.remove((key, v))
    else: return False
  return True


def aggregates():
  """name -> (rule text with Rows(k, v) as input, oracle(rows, got) -> bool, description)"""
  A = {}
  def simple(f):
    return lambda rows, got: (ng(got) == norm(f(rows)))
  A['Sum'] = ('T(r? += v) distinct :- Rows(k, v);', simple(lambda rows: sum(v for _, v in rows)))
  A['SumExpr'] = ('T(r? += v * 2 + 1) distinct :- Rows(k, v);', simple(lambda rows: sum(v * 2 + 1 for _, v in rows)))
  A['Min'] = ('T(r? Min= v) distinct :- Rows(k, v);', simple(lambda rows: min(v for _, v in rows)))
  A['Max'] = ('T(r? Max= v) distinct :- Rows(k, v);', simple(lambda rows: max(v for _, v in rows)))
  A['MinStr'] = ('T(r? Min= k) distinct :- Rows(k, v);', simple(lambda rows: min(k for k, _ in rows)))
  A['Avg'] = ('T(r? Avg= v) distinct :- Rows(k, v);', simple(lambda rows: sum(v for _, v in rows) / len(rows)))
  A['Count'] = ('T(r? Count= v) distinct :- Rows(k, v);', simple(lambda rows: len({v for _, v in rows})))
  A['CountStr'] = ('T(r? Count= k) distinct :- Rows(k, v);', simple(lambda rows: len({k for k, _ in rows})))
  A['List'] = ('T(r? List= v) distinct :- Rows(k, v);', lambda rows, got: sorted(ng(got)) == sorted(v for _, v in rows))
  A['ListStr'] = ('T(r? List= k) distinct :- Rows(k, v);', lambda rows, got: sorted(ng(got)) == sorted(k for k, _ in rows))
  A['Set'] = ('T(r? Set= v) distinct :- Rows(k, v);', lambda rows, got: sorted(ng(got)) == sorted({v for _, v in rows}))
  A['SetStr'] = ('T(r? Set= k) distinct :- Rows(k, v);', lambda rows, got: sorted(ng(got)) == sorted({k for k, _ in rows}))
  A['Concat'] = ('T(r? ++= [v, v]) distinct :- Rows(k, v);', lambda rows, got: sorted(ng(got)) == sorted([v for _, v in rows] * 2))
  A['ArgMin'] = ('T(r? ArgMin= k -> v) distinct :- Rows(k, v);', lambda rows, got: got in {k for k, v in rows if v == min(v for _, v in rows)})
  A['ArgMax'] = ('T(r? ArgMax= k -> v) distinct :- Rows(k, v);', lambda rows, got: got in {k for k, v in rows if v == max(v for _, v in rows)})
  for K in (1, 2, 3):
    A['ArgMinK%d' % K] = ('ArgMinN(x) = ArgMinK(x, %d);\nT(r? ArgMinN= k -> v) distinct :- Rows(k, v);' % K, (lambda K: lambda rows, got: k_smallest_ok(ng(got), rows, K))(K))
    A['ArgMaxK%d' % K] = ('ArgMaxN(x) = ArgMaxK(x, %d);\nT(r? ArgMaxN= k -> v) distinct :- Rows(k, v);' % K, (lambda K: lambda rows, got: k_smallest_ok(ng(got), rows, K, True))(K))
  A['Array'] = ('T(r? Array= v -> k) distinct :- Rows(k, v);', lambda rows, got: k_smallest_ok(ng(got), rows, len(rows)))
  A['GroupSum'] = ('T(k, r? += v) distinct :- Rows(k, v);', None)
  # constant grouping keys (an integer literal in GROUP BY is a column position for SQLite unless it is disguised)
  A['ConstKeySum'] = ('T(7, 0, r? += v) distinct :- Rows(k, v);', None)
  A['ConstKeyMax'] = ('T(c: 3, r? Max= v, l? List= v) distinct :- Rows(k, v);', None)
  A['ZeroKeyValueSum'] = ('T(0) += v :- Rows(k, v);', None)
  A['CombineSum'] = ('T(r) :- r == Sum{v :- Rows(k, v)};', simple(lambda rows: sum(v for _, v in rows)))
  A['CombineList'] = ('T(Size(l), Sort(l)) :- l == List{v :- Rows(k, v)};', None)
  return A


def plan(ctx):
  tasks = [('scalar', name) for name in scalar_builtins()] + [('capture',)]
  for name in aggregates():
    n = 5 if ctx.thorough else 4
    if ctx.thorough and name.startswith(('ArgMinK', 'ArgMaxK', 'Array')): n = 6     # the heap logic: every sequence of <=6 rows
    nsh = (16 if n == 6 else 8) if ctx.thorough else 2
    for sh in range(nsh): tasks.append(('agg', name, n, sh, nsh))
  return tasks


# builtins applied to columns of predicates whose names / argument names coincide with identifiers used inside the SQLite templates (t, n, value, key, x)
CAPTURE = [
  ('T(n: 3); T(n: 2);\nR(n, l) :- T(n:), l == Range(n);', [(2, LV((0, 1))), (3, LV((0, 1, 2)))]),
  ('T(3); T(2);\nR(x, l) :- T(x), l == Range(x);', [(2, LV((0, 1))), (3, LV((0, 1, 2)))]),
  ('T(n: 3); T(n: 2);\nR(n, s) :- T(n:), s == Size(Range(n + 1));', [(2, 3), (3, 4)]),
  ('N(n: 3); N(n: 2);\nR(n, y) :- N(n:), y in Range(n), y > 0;', [(2, 1), (3, 1), (3, 2)]),
  ('T(n: 3); T(n: 1);\nR(n, y) :- T(n:), y in Range(n);', [(1, 0), (3, 0), (3, 1), (3, 2)]),
  ('T(value: 2, key: 1);\nR(value, e) :- T(value:, key:), e in [key, value + 10];', [(2, 1), (2, 12)]),
  ('X(x: 2);\nR(x, e) :- X(x:), e in [x, x + 1];', [(2, 2), (2, 3)]),
]


def work_capture():
  stats = dict(evaluations=0, compiles=0, comparisons=0, cases=0); viol = []
  for body, want in CAPTURE:
    text = '@Engine("sqlite");\n' + body + '\n'
    out = impl.Compiled(text).sql('R'); stats['compiles'] += 1; stats['cases'] += 1
    if out[0] != 'script':
      viol.append(dict(sig='compile-%s/capture' % out[1], what='%s | %s' % (out[2][:160], body), case=dict(kind='capture', text=text))); continue
    db = impl.Db({}); got = db.run(out); db.close(); stats['evaluations'] += 1; stats['comparisons'] += 1
    rows = sorted(tuple(ng(v) for v in r) for r in got[2]) if got[0] == 'rows' else got
    if rows != sorted(want):
      viol.append(dict(sig='wrong-value/identifier-captured-by-template', what='%s -> %r, expected %r' % (body.replace('\n', ' '), rows, sorted(want)), case=dict(kind='capture', text=text)))
  return dict(stats=stats, viol=viol, samples=[], keys=dict(outcomes=set()))


def work(task):
  if task[0] == 'capture': return work_capture()
  if task[0] == 'scalar': return work_scalar(task[1])
  return work_agg(*task[1:])


_WARMED = [False]


def warm_up_other_dialects():
  """a SQLite evaluation must not depend on which dialects were compiled earlier in the process"""
  if _WARMED[0]: return
  _WARMED[0] = True
  for eng in ('trino', 'psql', 'bigquery', 'clickhouse', 'duckdb'):
    t = '@Engine("%s");\nA(1, "a,b", [1, 2]);\nT(ArrayConcat(l, l), Split(s, ","), Size(l), Greatest(x, 2), Least(x, 2), ToString(x), Join(Split(s, ","), "-"), Sort(l), Element(l, 0), Range(2)) :- A(x, s, l);\n' % eng
    impl.Compiled(t).sql('T')


def work_scalar(name):
  warm_up_other_dialects()
  tmpl, tuples, f = scalar_builtins()[name]
  arity = len(tuples[0])
  cols = ['a', 'b', 'c'][:arity]
  stats = dict(evaluations=0, compiles=0, comparisons=0, cases=0); viol = []; samples = []
  def bad(sig, what, args):
    viol.append(dict(sig='%s/%s' % (sig, name), what=what, case=dict(kind='scalar', name=name, args=args)))
  # table form: one compile, all tuples as rows (an index column keeps rows apart)
  head_args = ', '.join('%s: %s' % (c, c) for c in cols)
  expr = tmpl.format(*cols)
  text = '@Engine("sqlite");\nT(i, r) :- Args(i:, %s), r == %s;\n' % (head_args, expr)
  comp = impl.Compiled(text); stats['compiles'] += 1
  script = comp.sql('T')
  exp = {}
  for i, t in enumerate(tuples):
    exp[i] = norm(f(*t))
  if script[0] != 'script':
    bad('compile-' + script[1], 'table form not compiled: %s %s | %s' % (script[1], script[2][:200], text), None)
  else:
    db = impl.Db({'Args': ['i'] + cols})
    db.load({'Args': [(i,) + tuple(t) for i, t in enumerate(tuples)]})
    got = db.run(script); db.close()
    if got[0] != 'rows':
      bad('sqlerr', 'table form: %s | %s' % (got[1], text), None)
    else:
      g = {r[got[1].index('col0')]: ng(r[got[1].index('col1')]) for r in got[2]}
      for i, t in enumerate(tuples):
        stats['evaluations'] += 1; stats['comparisons'] += 1
        if i not in g: bad('missing-row', '%s%r produced no row (expected %r)' % (name, t, exp[i]), list(t))
        elif g[i] != exp[i]: bad('wrong-value', 'table form %s -> %r, expected %r' % (tmpl.format(*map(lit, t)), g[i], exp[i]), list(t))
  # literal form, batched (l[i] directly on a list literal is not part of the documented grammar: table form only)
  B = 24
  for s in range(0, len(tuples) if name != 'Subscript' else 0, B):
    chunk = tuples[s:s + B]
    lines = ['@Engine("sqlite");'] + ['T(%d, %s);' % (s + j, tmpl.format(*map(lit, t))) for j, t in enumerate(chunk)]
    comp = impl.Compiled('\n'.join(lines) + '\n'); stats['compiles'] += 1
    script = comp.sql('T')
    if script[0] != 'script':
      bad('compile-' + script[1], 'literal form not compiled: %s %s | %s' % (script[1], script[2][:200], lines[1]), [list(t) for t in chunk[:1]]); continue
    db = impl.Db({}); got = db.run(script); db.close()
    if got[0] != 'rows':
      bad('sqlerr', 'literal form: %s | %s' % (got[1], ' '.join(lines[1:3])), None); continue
    g = {r[0]: ng(r[1]) for r in got[2]}
    for j, t in enumerate(chunk):
      stats['evaluations'] += 1; stats['comparisons'] += 1
      if g.get(s + j, 'MISSING') != exp[s + j]:
        bad('wrong-value-literal', 'literal form %s -> %r, expected %r' % (tmpl.format(*map(lit, t)), g.get(s + j, 'MISSING'), exp[s + j]), list(t))
  stats['cases'] = len(tuples)
  samples.append(dict(builtin=name, expression=tmpl, example_args=list(tuples[len(tuples) // 2]), expected=repr(exp[len(tuples) // 2])))
  return dict(stats=stats, viol=viol[:5], samples=samples if name in ('Join', 'Range') else [], keys=dict(outcomes={(name, repr(v)) for v in exp.values()}))


def work_agg(name, n, shard, nsh):
  warm_up_other_dialects()
  text_rule, oracle = aggregates()[name]
  text = '@Engine("sqlite");\n' + text_rule + '\n'
  stats = dict(evaluations=0, compiles=1, comparisons=0, cases=0); viol = []
  comp = impl.Compiled(text); script = comp.sql('T')
  def bad(sig, what, rows):
    viol.append(dict(sig='%s/%s' % (sig, name), what=what, case=dict(kind='agg', name=name, rows=rows)))
  if script[0] != 'script':
    bad('compile-' + script[1], 'not compiled: %s %s | %s' % (script[1], script[2][:200], text), None)
    return dict(stats=stats, viol=viol)
  db = impl.Db({'Rows': ['col0', 'col1']})
  outcomes = set(); idx = 0
  for alphabet, ln in [(AGG_ROWS, ln) for ln in range(1, n + 1)] + [(AGG_ROWS_ZERO, ln) for ln in range(1, min(n, 5))]:
    for seq in itertools.product(alphabet, repeat=ln):
      idx += 1
      if idx % nsh != shard: continue
      rows = list(seq)
      db.load({'Rows': rows}); got = db.run(script)
      stats['evaluations'] += 1; stats['comparisons'] += 1
      if got[0] != 'rows':
        bad('sqlerr', '%s on %s: %s' % (name, rows, got[1]), rows); continue
      ok = True
      if name == 'GroupSum':
        e = {}
        for k, v in rows: e[k] = e.get(k, 0) + v
        ok = sorted((r[got[1].index('col0')], r[got[1].index('r')]) for r in got[2]) == sorted(e.items())
      elif name in ('ConstKeySum', 'ConstKeyMax', 'ZeroKeyValueSum'):
        vs = [v for _, v in rows]
        if name == 'ConstKeySum': want = [(7, 0, sum(vs))]; gotv = [(r[got[1].index('col0')], r[got[1].index('col1')], r[got[1].index('r')]) for r in got[2]]
        elif name == 'ConstKeyMax': want = [(3, max(vs), LV(sorted(vs)))]; gotv = [(r[got[1].index('c')], r[got[1].index('r')], LV(sorted(ng(r[got[1].index('l')])))) for r in got[2]]
        else: want = [(0, sum(vs))]; gotv = [(r[got[1].index('col0')], r[got[1].index('logica_value')]) for r in got[2]]
        ok = gotv == want
      elif name == 'CombineList':
        ok = len(got[2]) == 1 and got[2][0][0] == len(rows) and ng(got[2][0][1]) == LV(sorted(v for _, v in rows))
      else:
        ok = len(got[2]) == 1 and oracle(rows, got[2][0][0] if not isinstance(got[2][0][0], str) or name in ('MinStr', 'ArgMin', 'ArgMax') else got[2][0][0])
      outcomes.add(repr(got[2]))
      if not ok: bad('wrong-aggregate', '%s over rows %s (arrival order) -> %r' % (name, rows, got[2]), rows)
  db.close()
  stats['cases'] = stats['evaluations']
  samples = [dict(aggregate=name, rule=text_rule, input_rows_in_arrival_order=[list(r) for r in rows], result=repr(got[2]))] if shard == 0 and name in ('ArgMinK2', 'Avg') else []
  return dict(stats=stats, viol=viol[:5], samples=samples, keys=dict(outcomes={(name, o) for o in outcomes}))


def coverage(ctx, merged):
  s = merged['stats']
  return dict(
    states=s.get('cases', 0), transitions=s.get('evaluations', 0), traces_validated_against_impl=s.get('comparisons', 0),
    samples=merged['samples'], exhaustive=True, evaluations=s.get('evaluations', 0), distinct_nontrivial=len(merged['keys'].get('outcomes', ())),
    rule='state = one argument tuple of one built-in / one input row sequence of one aggregate; transition = one evaluation through compiled SQL (table form and literal form); '
         'distinct_nontrivial = distinct (built-in, result) pairs observed',
    compiles=s.get('compiles', 0), scalar_builtins=len(scalar_builtins()), aggregates=len(aggregates()),
    bounds=dict(ints=INTS, floats=FLOATS, strings=STRS, lists='<=3 elements incl. empty', aggregate_rows='5, K-best aggregates 6' if ctx.thorough else 4, aggregate_alphabet='{a,b,c}x{1,2,3}', K=[1, 2, 3]), cap_hit=False)


def replay(ctx, case):
  if case['kind'] == 'scalar': return work_scalar(case['name'])['viol']
  name = case['name']
  text_rule, oracle = aggregates()[name]
  r = work_agg(name, 4, 0, 1)
  return r['viol']


LEVEL_TEXT = ('Each of ~50 scalar built-in forms (arithmetic, comparison, boolean operators, Range, Size, Element and l[i], in, Sort, ArrayConcat, ++, Join, Split, ToString, ToInt64, '
              'Least/Greatest, if, compositions) is evaluated on ALL argument tuples of its small typed domain in table form and in literal form; each of 27 aggregate forms (Sum, Min, Max, Avg, '
              'Count, List, Set, ++=, ArgMin/ArgMax, ArgMinK/ArgMaxK k=1..3, Array, grouped and combine forms) on EVERY sequence of <=4 (thorough 5) input rows over {a,b,c}x{1,2,3}, '
              'which covers every multiset in every arrival order; results compared with plain Python definitions (admissible-answer sets for ties).')
LEVEL_NOTE = 'Trusted: the Python one-liners that define each built-in, SQLite. Bounded: domains as listed; under-specified corners (DESIGN 2.4) not generated.'
