"""C17 - grounded predicates are materialised faithfully and re-running is idempotent.

Machine: one persistent SQLite file attached as logica_home.  Operations: run(pred) for every predicate of the
program (the statement list logica.py builds, executed by the real sqlite3_logica.RunSqlScript) and switch(A<->B)
between two versions of the program that differ in the facts under the grounded predicate.  Initial states: empty file,
and a file pre-seeded with a stale, differently shaped table.  State = canonical dump of every table in the file +
current version.  BFS over operation sequences with state de-duplication; a reference model (refsem + "run(X)
rewrites exactly the grounded predicates X depends on") predicts output and file contents after every step."""
import os, tempfile, shutil, sqlite3, csv, io, json, itertools, collections
from .. import impl, explore, lang, refsem
from ..lang import R, Rule, Lit, V, N, Bin, Cmp, Eq, Not, Comb, Aggr, Ann, Program

PID = 'C17'
LEVEL = 'model_checking'
TECHNIQUE = 'explicit-state BFS over run/switch histories against one persistent SQLite file, real RunSqlScript, reference model of output and file contents on every step'
ASSUMPTIONS = ['values are compared through the CSV text that RunSqlScript returns', 'two program versions (A/B) differing in base facts; stale pre-seeded table as non-initial start']

x, y, z, s_ = V('x'), V('y'), V('z'), V('s')
HOME = '__HOME__'


def shapes():
  S = {}
  fa = [R('B', N(1)), R('B', N(2)), R('B', N(2))]
  fb = [R('B', N(2)), R('B', N(3))]
  def mk(name, rules, grounds, preds, explicit=None, alias_of=None, dataset=None):
    S[name] = dict(rules=rules, grounds=grounds, preds=preds, explicit=explicit or {}, facts=dict(A=fa, B=fb), alias_of=alias_of or {}, dataset=dataset)
  mk('plain_twice', [R('P', x, body=(Lit('B', x), Cmp('>', x, N(1)))), R('T', x, y, body=(Lit('P', x), Lit('P', y)))], ['P'], ['P', 'T'])
  mk('aggregating', [R('P', x, named={'c': Aggr('Sum', N(1))}, body=(Lit('B', x),), distinct=True), R('T', x, body=(Lit('P', x, c=y), Cmp('>', y, N(1)))), R('U', x, y, body=(Lit('P', x, c=y),))], ['P'], ['P', 'T', 'U'])
  mk('chain', [R('P', x, body=(Lit('B', x),)), R('Q', Bin('+', x, N(10)), body=(Lit('P', x),)), R('T', x, z, body=(Lit('P', x), Lit('Q', z)))], ['P', 'Q'], ['P', 'Q', 'T'])
  mk('explicit_name', [R('P', x, Bin('*', x, N(2)), body=(Lit('B', x),)), R('T', y, body=(Lit('P', x, y),))], ['P'], ['P', 'T'], {'P': 'logica_home.explicit_p'})
  mk('two_independent', [R('P', x, body=(Lit('B', x),)), R('C', N(5)), R('Q', x, body=(Lit('C', x),)), R('T', x, y, body=(Lit('P', x), Lit('Q', y))), R('U', x, body=(Lit('Q', x),))], ['P', 'Q'], ['P', 'Q', 'T', 'U'])
  mk('negation_combine', [R('P', x, body=(Lit('B', x), Cmp('<', x, N(3)))), R('T', x, body=(Lit('B', x), Not(Lit('P', x)))), R('U', s_, body=(Eq(s_, Comb('Sum', x, (Lit('P', x),))),))], ['P'], ['P', 'T', 'U'])
  mk('grounded_final_only', [R('P', x, body=(Lit('B', x),)), R('T', x, body=(Lit('B', x),))], ['P'], ['P', 'T'])
  mk('diamond', [R('P', x, body=(Lit('B', x),)), R('Q', Bin('+', x, N(1)), body=(Lit('P', x),)), R('W', Bin('+', x, N(2)), body=(Lit('P', x),)), R('T', x, y, body=(Lit('Q', x), Lit('W', y)))], ['P', 'Q', 'W'], ['Q', 'W', 'T'])
  mk('ground_of_aggregate_consumer', [R('P', x, body=(Lit('B', x),)), R('Q', named={'n': Aggr('Count', x)}, body=(Lit('P', x),), distinct=True), R('T', y, body=(Lit('Q', n=y),))], ['P', 'Q'], ['P', 'Q', 'T'])
  mk('ordered_limited', [R('P', x, body=(Lit('B', x),), distinct=True, order_by=['col0 desc'], limit=1), R('T', x, body=(Lit('P', x),))], ['P'], ['P', 'T'])
  mk('string_values', [R('P', Bin('++', lang.S('v'), lang.Call('ToString', x)), body=(Lit('B', x),)), R('T', x, body=(Lit('P', x),))], ['P'], ['P', 'T'])
  mk('shared_aggregate_under_ground', [R('W', x, named={'c': Aggr('Sum', N(1))}, body=(Lit('B', x),), distinct=True), R('G', x, body=(Lit('W', x, c=y), Cmp('>', y, N(0)))), R('H', x, body=(Lit('G', x),)),
                                        R('T', x, y, body=(Lit('H', x), Lit('W', x, c=y))), R('U', x, y, body=(Lit('W', x, c=y), Lit('H', x)))], ['G'], ['G', 'H', 'T', 'U', 'W'])
  mk('reader_sorts_first', [R('Bz', x, body=(Lit('B', x),)), R('A2', Bin('+', x, N(1)), body=(Lit('Bz', x),)), R('T', x, y, body=(Lit('Bz', x), Lit('A2', y))), R('U', y, x, body=(Lit('A2', y), Lit('Bz', x)))], ['Bz', 'A2'], ['Bz', 'A2', 'T', 'U'])
  mk('through_injectible', [R('P', x, body=(Lit('B', x),)), R('J', x, y, body=(Lit('P', x), Eq(y, Bin('+', x, N(1))))), R('T', y, body=(Lit('J', x, y),))], ['P'], ['P', 'T'])
  # beyond the small shapes: 12 columns (two-digit positions, read positionally and by name), a chain of four grounded predicates, values 0 / "" / negative
  vs = [lang.V('v%d' % i) for i in range(12)]
  wcols = [x, Bin('+', x, N(1)), N(0), lang.S(''), Bin('-', N(0), x), Bin('*', x, N(10)), lang.S('six'), Bin('+', x, N(7)), x, N(9), Bin('+', x, N(10)), Bin('-', x, N(11))]
  mk('wide_columns', [R('P', *wcols, body=(Lit('B', x),)), R('T', vs[10], vs[11], vs[2], vs[3], body=(Lit('P', *vs),)), R('U', vs[10], vs[1], body=(Lit('P', col10=vs[10], col1=vs[1], col3=lang.S('')),))], ['P'], ['P', 'T', 'U'])
  mk('chain_of_four', [R('P', x, body=(Lit('B', x),)), R('Q', Bin('+', x, N(10)), body=(Lit('P', x),)), R('W', Bin('+', x, N(100)), body=(Lit('Q', x),)), R('Z', x, named={'n': Aggr('Count', x)}, body=(Lit('W', x),), distinct=True),
                       R('T', x, y, body=(Lit('Z', x, n=y), Lit('P', V('z')), Cmp('<', V('z'), x)))], ['P', 'Q', 'W', 'Z'], ['P', 'W', 'Z', 'T'])
  mk('falsy_values', [R('P', Bin('-', x, x), lang.S(''), Bin('-', N(1), x), body=(Lit('B', x),)), R('T', y, z, body=(Lit('P', N(0), y, z),)), R('U', y, named={'n': Aggr('Sum', z), 'c': Aggr('Count', x)}, body=(Lit('P', x, y, z),), distinct=True)], ['P'], ['P', 'T', 'U'])
  # a predicate grounded to ANOTHER predicate's table (`@Ground(Snap, Stage)`, the chain-breaking idiom): its readers read whatever that table
  # holds and do not recompute Stage; the target has an explicit table name, and an alias of an alias
  mk('alias_of_explicit', [R('Stage', x, Bin('*', x, N(2)), body=(Lit('B', x),)), R('Save', Aggr('Count', x), body=(Lit('Stage', x, y),), distinct=True), R('T', x, y, body=(Lit('Snap', x, y),)),
                           R('U', Aggr('Sum', y), body=(Lit('View', x, y),), distinct=True)], ['Stage'], ['Save', 'T', 'U'], {'Stage': 'logica_home.stage_current'}, alias_of={'Snap': 'Stage', 'View': 'Snap'})
  mk('alias_of_default', [R('Stage', x, body=(Lit('B', x),)), R('Save', Aggr('Count', x), body=(Lit('Stage', x),), distinct=True), R('T', x, body=(Lit('Snap', x), Cmp('>', x, N(1))))], ['Stage'], ['Save', 'T'], alias_of={'Snap': 'Stage'})
  # a grounded predicate holding a Set of strings (the table must be the same whichever process writes it)
  mk('set_of_strings', [R('W', lang.S('pear')), R('W', lang.S('apple')), R('W', lang.S('fig')), R('W', lang.S('kiwi')), R('W', lang.S('lime')), R('W', lang.S('apple')),
                        R('P', x, named={'s': Aggr('Set', y)}, body=(Lit('B', x), Lit('W', y)), distinct=True), R('T', x, body=(Lit('P', x, s=y),))], ['P'], ['T'])
  # an explicit @Dataset naming a second attached database: default-named grounded tables live there, not in logica_home
  mk('dataset_archive', [R('P', x, body=(Lit('B', x), Cmp('>', x, N(1)))), R('Q', Bin('+', x, N(10)), body=(Lit('P', x),)), R('T', x, y, body=(Lit('P', x), Lit('Q', y)))], ['P', 'Q'], ['P', 'Q', 'T'], dataset='archive')
  return S


def program(shape, version, home, alias='logica_home'):
  stmts = [Ann('@AttachDatabase("%s", "%s");' % (alias, home))]
  if shape.get('dataset'):
    stmts += [Ann('@AttachDatabase("%s", "%s");' % (shape['dataset'], home.replace('home.db', shape['dataset'] + '.db'))), Ann('@Dataset("%s");' % shape['dataset'])]
  for g in shape['grounds']:
    if g in shape['explicit']: stmts.append(Ann('@Ground(%s, "%s");' % (g, shape['explicit'][g])))
    else: stmts.append(Ann('@Ground(%s);' % g))
  for a, t in shape.get('alias_of', {}).items(): stmts.append(Ann('@Ground(%s, %s);' % (a, t)))
  return Program(stmts + shape['facts'][version] + shape['rules'])


def table_name(shape, g):
  if shape.get('dataset') and g not in shape['explicit']: return shape['dataset'] + ':' + g
  return shape['explicit'].get(g, 'logica_home.' + g).split('.', 1)[1]


def dump(path):
  """canonical dump of every table of the file (and of the other attached files next to it, their tables prefixed with the file's name)"""
  out = {}
  import glob as _g
  for f in sorted(_g.glob(os.path.join(os.path.dirname(path), '*.db'))):
    prefix = '' if f == path else os.path.basename(f)[:-3] + ':'
    con = sqlite3.connect(f)
    for (name,) in con.execute("select name from sqlite_master where type='table' order by name").fetchall():
      cur = con.execute('select * from "%s"' % name)
      cols = [d[0] for d in cur.description]
      out[prefix + name] = [cols, sorted([[str(v) for v in r] for r in cur.fetchall()])]
    con.close()
  return out


class TableMissing(Exception): pass


def resolve_alias(shape, a):
  while a in shape.get('alias_of', {}): a = shape['alias_of'][a]
  return a


def model_rows(shape, version, pred, mstate=None):
  rules = [s for s in shape['facts'][version] + shape['rules'] if isinstance(s, Rule)]
  tables = {}
  for a in shape.get('alias_of', {}):
    # the alias holds what the target's table held when it was last written (by a run under some version of the facts)
    target = resolve_alias(shape, a)
    wv = (mstate or {}).get('__written:' + table_name(shape, target))
    if wv is None: tables[a] = None
    else:
      tc, tr = refsem.Evaluator([s for s in shape['facts'][wv] + shape['rules'] if isinstance(s, Rule)], {}).rows(target)
      tables[a] = (list(tc), list(tr))
  ev = refsem.Evaluator(rules, {a: t for a, t in tables.items() if t is not None})
  used = deps_closure(ev, pred) | {pred}
  if any(tables.get(a, 0) is None for a in used if a in tables): raise TableMissing(pred)
  cols, rows = ev.rows(pred)
  return cols, rows, ev


def deps_closure(ev, pred):
  seen = set(); st = [pred]
  while st:
    q = st.pop()
    for d in ev.deps(q):
      if d not in seen: seen.add(d); st.append(d)
  return seen


def sval(v):
  if isinstance(v, bool): return str(int(v))
  return str(v)


class Machine:
  def __init__(self, shape_name, init, workdir, alias='logica_home'):
    self.alias = alias
    self.shape = shapes()[shape_name]; self.shape_name = shape_name; self.init = init; self.workdir = workdir
    self.scripts = {}
    self.home = os.path.join(workdir, 'home.db')

  def script(self, version, pred):
    k = (version, pred)
    if k not in self.scripts:
      text = program(self.shape, version, self.home, self.alias).text()
      # the same process first compiles the un-grounded reading of the program (same predicate names): what that leaves behind must not
      # decide how the grounded program is planned
      twin = '\n'.join(l for l in text.split('\n') if not l.startswith('@Ground(') and not l.startswith('@Dataset('))
      if not self.shape.get('alias_of'):
        for p2 in self.shape['preds']: impl.compile_pred(twin, p2)
      out = impl.compile_pred(text, pred)
      self.scripts[k] = (out, text)
    return self.scripts[k]

  def reset(self):
    import glob as _g
    for f in _g.glob(os.path.join(self.workdir, '*.db')): os.remove(f)
    con = sqlite3.connect(self.home)
    other = None
    if self.shape.get('dataset'):
      other = sqlite3.connect(os.path.join(self.workdir, self.shape['dataset'] + '.db'))
      other.execute('create table keepme(a)'); other.execute('insert into keepme values (1)')
    if self.init == 'stale':
      for g in self.shape['grounds']:
        tn = table_name(self.shape, g); c = con
        if ':' in tn: tn = tn.split(':', 1)[1]; c = other
        c.execute('create table "%s"(zz, ww, qq)' % tn)
        c.execute('insert into "%s" values (99, 98, 97)' % tn)
      con.execute('create table unrelated(a)'); con.execute('insert into unrelated values (7)')
    con.commit(); con.close()
    if other: other.commit(); other.close()

  def apply(self, version, op):
    """execute one operation on the real file; -> (new version, output or None)"""
    if op == 'switch': return ('B' if version == 'A' else 'A'), None
    if op == 'wfall':
      # every predicate of the program requested in ONE workflow run, compiled from one program object (tools/run_in_terminal.RunMany)
      u = impl.M('compiler.universe'); rt = impl.M('tools.run_in_terminal'); cl = impl.M('common.concertina_lib')
      import contextlib as _c, io as _io
      try:
        text = program(self.shape, version, self.home, self.alias).text()
        rules = impl.quiet(impl.parse, text)['rule']
        prog = impl.quiet(u.LogicaProgram, rules); execs = []
        for pr in self.shape['preds']:
          impl.quiet(prog.FormattedPredicateSql, pr); execs.append(prog.execution)
        with _c.redirect_stdout(_io.StringIO()):
          res = cl.ExecuteLogicaProgram(execs, rt.SqlRunner('sqlite'), 'sqlite', display_mode='silent')
        return version, ('many', {pr: (list(res[pr][0]), sorted([[sval(v) for v in r] for r in res[pr][1]])) for pr in self.shape['preds']})
      except Exception as e:
        return version, ('sql-error', type(e).__name__, str(e)[:200])
    via_workflow = op.startswith('wf:')
    op = op[3:] if via_workflow else op
    out, text = self.script(version, op)
    if via_workflow and out[0] == 'script':
      # the workflow path of tools/run_in_terminal.Run: ExecuteLogicaProgram with the real SqlRunner on a fresh connection
      rt = impl.M('tools.run_in_terminal'); cl = impl.M('common.concertina_lib')
      import contextlib as _c, io as _io
      try:
        with _c.redirect_stdout(_io.StringIO()):
          res = cl.ExecuteLogicaProgram([out[5]], rt.SqlRunner('sqlite'), 'sqlite', display_mode='silent')
        hdr, rows = res[op]
        return version, ('rows', list(hdr), sorted([[sval(v) for v in r] for r in rows]), out[3])
      except Exception as e:
        return version, ('sql-error', type(e).__name__, str(e)[:200])
    if out[0] != 'script': return version, ('compile-error', out[1], out[2][:200])
    sl = impl.M('common.sqlite3_logica')
    _, preamble, defines, main, _, _ = out
    try:
      res = sl.RunSqlScript([preamble] + defines + [main], 'csv')
    except Exception as e:
      return version, ('sql-error', type(e).__name__, str(e)[:200])
    rows = list(csv.reader(io.StringIO(res)))
    return version, ('rows', rows[0] if rows else [], sorted(rows[1:]), main)


def model_apply(m, mstate, version, op):
  """reference model: -> (new model state, new version, expected output)"""
  if op == 'switch': return mstate, ('B' if version == 'A' else 'A'), None
  if op == 'wfall':
    new = dict(mstate); outs = {}
    if m.shape.get('alias_of'): return mstate, version, 'UNSPECIFIED'     # joint runs of alias readers and writers: the order is not prescribed
    for pr in m.shape['preds']:
      cols, rows, ev = model_rows(m.shape, version, pr, mstate)
      outs[pr] = (list(cols), sorted([[sval(v) for v in r] for r in rows]))
      for g in m.shape['grounds']:
        if g != pr and g in deps_closure(ev, pr):
          gc, gr = ev.rows(g)
          new[table_name(m.shape, g)] = [list(gc), sorted([[sval(v) for v in r] for r in gr])]
          new['__written:' + table_name(m.shape, g)] = version
    return new, version, ('many', outs)
  op = op[3:] if op.startswith('wf:') else op
  try:
    cols, rows, ev = model_rows(m.shape, version, op, mstate)
  except TableMissing:
    return mstate, version, 'FAILS'
  new = dict(mstate)
  for g in m.shape['grounds']:
    if g != op and g in deps_closure(ev, op):
      gc, gr = ev.rows(g)
      new[table_name(m.shape, g)] = [list(gc), sorted([[sval(v) for v in r] for r in gr])]
      new['__written:' + table_name(m.shape, g)] = version
  return new, version, (list(cols), sorted([[sval(v) for v in r] for r in rows]))


def norm_dump(d):
  return {k: [sorted(v[0]), sorted([sorted(zip(v[0], r)) for r in v[1]])] for k, v in d.items() if not k.startswith('__written:')}


def explore_machine(shape_name, init, depth, alias='logica_home'):
  workdir = tempfile.mkdtemp(prefix='verif_c17_')
  viol = []; stats = dict(transitions=0, comparisons=0, replays=0); samples = []
  try:
    m = Machine(shape_name, init, workdir, alias)
    ops = list(m.shape['preds']) + ['wf:' + p for p in m.shape['preds']] + ([] if m.shape.get('alias_of') else ['wfall']) + ['switch']
    def build(hist):
      """fresh file, replay history on the real implementation and on the model"""
      m.reset(); stats['replays'] += 1
      version = 'A'; mstate = dump(m.home); last = None; mlast = None
      for op in hist:
        before = dump(m.home)
        version2, out = m.apply(version, op)
        mstate, mversion, mout = model_apply(m, mstate, version, op)
        version = version2
        last = (op, before, out, mout)
      return version, dump(m.home), mstate, last
    def canon(version, d):
      return json.dumps([version, norm_dump(d)], sort_keys=True)
    v0, d0, _, _ = build(())
    seen = {canon(v0, d0)}
    frontier = collections.deque([()])
    def bad(sig, what, hist):
      viol.append(dict(sig='%s/%s' % (sig, shape_name), what='%s | shape=%s init=%s history=%s' % (what, shape_name, init, list(hist)),
                       case=dict(shape=shape_name, init=init, alias=alias, history=list(hist))))
    while frontier:
      hist = frontier.popleft()
      if len(hist) >= depth: continue
      for op in ops:
        nxt = hist + (op,)
        version, d, mstate, last = build(nxt)
        stats['transitions'] += 1
        _, before, out, mout = last
        pname = op[3:] if op.startswith('wf:') else op
        if op == 'wfall':
          stats['comparisons'] += 2
          if out[0] != 'many': bad('run-failed', 'run of all predicates at once failed: %s' % (out,), nxt)
          else:
            for pr, (ecols, erows) in mout[1].items():
              hdr, rows = out[1][pr]
              got = sorted([[r[hdr.index(c)] for c in ecols] for r in rows]) if sorted(hdr) == sorted(ecols) else None
              if got != erows: bad('wrong-output-when-requested-together', '%s printed %s %s, model %s %s' % (pr, hdr, rows[:6], ecols, erows[:6]), nxt)
          if norm_dump(d) != norm_dump(mstate):
            diff = [k for k in set(d) | set(mstate) if norm_dump(d).get(k) != norm_dump(mstate).get(k)]
            bad('wrong-table-contents', 'after the joint run tables %s differ: file %s, model %s' % (diff, {k: d.get(k) for k in diff}, {k: mstate.get(k) for k in diff}), nxt)
        elif op != 'switch':
          stats['comparisons'] += 2
          if mout == 'FAILS':
            if out[0] == 'rows': bad('reads-a-table-that-was-never-written', 'run(%s) printed %s although the table its alias stands for was not written yet' % (op, out[2][:4]), nxt)
          elif out[0] != 'rows':
            bad('run-failed', 'run(%s) failed: %s' % (op, out), nxt)
          else:
            hdr, rows, main = out[1], out[2], out[3]
            ecols, erows = mout
            perm = None
            if sorted(hdr) == sorted(ecols): perm = [hdr.index(c) for c in ecols]
            got = sorted([[r[j] for j in perm] for r in rows]) if perm is not None else None
            ordered_ok = True
            if got != erows:
              bad('wrong-output', 'run(%s) printed %s %s, model %s %s' % (op, hdr, rows[:6], ecols, erows[:6]), nxt)
            # dependants read the table rather than recomputing
            for g in m.shape['grounds']:
              ev = model_rows(m.shape, 'A', pname, mstate)[2]
              if g != pname and g in ev.deps(pname) and table_name(m.shape, g).split(':')[-1] not in main:
                bad('dependant-does-not-read-table', 'main SQL of %s does not mention table %s' % (op, table_name(m.shape, g)), nxt)
          if norm_dump(d) != norm_dump(mstate):
            diff = [k for k in set(d) | set(mstate) if norm_dump(d).get(k) != norm_dump(mstate).get(k)]
            kind = 'writes-requested-grounded-predicate' if pname in m.shape['grounds'] and table_name(m.shape, pname) in diff else 'wrong-table-contents'
            bad(kind, 'after run(%s) tables %s differ: file %s, model %s' % (op, diff, {k: d.get(k) for k in diff}, {k: mstate.get(k) for k in diff}), nxt)
          # idempotence: the same run again changes nothing and prints the same
          if len(nxt) >= 2 and nxt[-1] == nxt[-2]:
            stats['comparisons'] += 1
            pv, pd, _, plast = build(nxt[:-1])
            if norm_dump(pd) != norm_dump(d) or (plast[2] is not None and plast[2][0] == 'rows' and out[0] == 'rows' and plast[2][1:3] != out[1:3]):
              bad('not-idempotent', 'second run(%s) changed the file or the output' % op, nxt)
        k = canon(version, d)
        if k not in seen:
          seen.add(k); frontier.append(nxt)
        if len(samples) < 1 and len(nxt) == 3 and nxt[1] == 'switch' and init == 'stale':
          samples.append(dict(shape=shape_name, initial='stale pre-seeded tables', history=list(nxt), program=program(m.shape, 'A', HOME).text(), tables_after={k: v[1][:4] for k, v in d.items()}))
    stats['states'] = len(seen)
  finally:
    shutil.rmtree(workdir, ignore_errors=True)
  by = {}
  for v in viol: by.setdefault(v['sig'], []).append(v)
  out = []
  for s, vs in by.items():
    vs.sort(key=lambda v: len(v['case']['history'])); out.extend(vs[:2])
  return dict(stats=stats, viol=out, samples=samples)


def child_main(argv):
  """one run of one predicate in THIS process (started with its own PYTHONHASHSEED); prints the output and the dump as JSON"""
  shape_name, workdir, op = argv
  impl.setup(os.environ.get('VERIF_REPO', '/repo'))
  m = Machine(shape_name, 'empty', workdir)
  _, out = m.apply('A', op)
  print('\n@@' + json.dumps([out[:3] if out else None, dump(m.home)]))


def explore_processes(shape_name):
  """the same run repeated by fresh processes with different hash seeds: output and table contents must not change"""
  import subprocess, sys
  workdir = tempfile.mkdtemp(prefix='verif_c17p_'); viol = []; stats = dict(transitions=0, comparisons=0, replays=0, states=0)
  try:
    m = Machine(shape_name, 'empty', workdir); m.reset()
    seen = []
    for op in m.shape['preds']:
      for seed in ('1', '2', '3', '1'):
        env = dict(os.environ, PYTHONHASHSEED=seed)
        r = subprocess.run([sys.executable, '-m', 'mc.checks.c17', shape_name, workdir, op], cwd=os.path.dirname(os.path.dirname(os.path.dirname(os.path.abspath(__file__)))), env=env, capture_output=True, text=True)
        stats['transitions'] += 1; stats['replays'] += 1
        line = [l for l in r.stdout.split('\n') if l.startswith('@@')]
        if not line:
          viol.append(dict(sig='child-failed/%s' % shape_name, what=r.stderr[-300:], case=dict(shape=shape_name, init='procs', alias='logica_home', history=[op]))); break
        got = line[-1][2:]
        seen.append((op, seed, got)); stats['comparisons'] += 1
        if got != seen[[o for o, _, _ in seen].index(op)][2]:
          first = seen[[o for o, _, _ in seen].index(op)]
          viol.append(dict(sig='rerun-in-a-new-process-differs/%s' % shape_name, what='run(%s) under PYTHONHASHSEED=%s gives %s, under %s it gave %s' % (op, seed, got[:300], first[1], first[2][:300]),
                           case=dict(shape=shape_name, init='procs', alias='logica_home', history=[op]))); break
    stats['states'] = len({g for _, _, g in seen})
  finally:
    shutil.rmtree(workdir, ignore_errors=True)
  return dict(stats=stats, viol=viol, samples=[])


def plan(ctx):
  depth = 4 if ctx.thorough else 3
  names = [n for n in shapes() if n != 'set_of_strings']       # that shape only takes part in the cross-process runs (the model does not print sets)
  tasks = [('m', n, init, depth, 'logica_home') for n in names for init in ('empty', 'stale')]
  # the persistent file attached under the default dataset alias itself
  tasks += [('m', n, 'empty', depth, 'logica_test') for n in names if not shapes()[n]['explicit']][:6]
  tasks += [('procs', n, 'procs', 1, 'logica_home') for n in ('set_of_strings', 'string_values', 'aggregating', 'chain')]
  return tasks


def work(task):
  _, name, init, depth, alias = task
  r = explore_processes(name) if task[0] == 'procs' else explore_machine(name, init, depth, alias)
  r['keys'] = dict(outcomes={(name, init, alias, i) for i in range(r['stats']['states'])})
  return r


def coverage(ctx, merged):
  s = merged['stats']
  return dict(
    states=s.get('states', 0), transitions=s.get('transitions', 0), traces_validated_against_impl=s.get('comparisons', 0),
    samples=merged['samples'], exhaustive=True, evaluations=s.get('transitions', 0), distinct_nontrivial=s.get('states', 0),
    rule='state = (canonical dump of every table of the persistent file, program version); transition = run(pred) via the real RunSqlScript or switch(A<->B); '
         'every transition compared with the reference model of output and file contents',
    shapes=len(shapes()), histories_replayed=s.get('replays', 0),
    bounds=dict(depth=4 if ctx.thorough else 3, initial_states=['empty file', 'stale differently shaped tables + unrelated table'], versions=2), cap_hit=False)


def replay(ctx, case):
  r = explore_machine(case['shape'], case['init'], len(case['history']), case.get('alias', 'logica_home'))
  return r['viol']


LEVEL_TEXT = ('Explicit-state BFS (depth 3, thorough 4) over all sequences of run(pred) / switch(A<->B) for 20 program shapes with one to three grounded predicates (used twice, aggregating, chained, '
              'explicitly named table, independent, under negation/combine, diamond, ordered/limited, through an injectible predicate, 12 columns, a chain of four, falsy values, a second attached database named by @Dataset, predicates grounded to the table of ANOTHER predicate incl. an alias of an alias), from an empty file and from a file with stale differently '
              'shaped tables; every step executed by the real RunSqlScript against one persistent SQLite file and compared with a reference model: printed rows, contents of every table, '
              'no write when the grounded predicate itself is requested, idempotence of repeated runs, dependants reading the table. Four shapes are also re-run by fresh processes under different hash seeds: output and tables must not change.')
LEVEL_NOTE = 'Trusted: reference evaluator; the model rule "run(X) rewrites exactly the grounded predicates X depends on". Bounded: 20 shapes, 2 versions, depth <=4.'


if __name__ == '__main__':
  import sys as _sys
  child_main(_sys.argv[1:])
