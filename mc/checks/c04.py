"""C04 - functor application is predicate substitution."""
import base64, pickle
from .. import impl, explore, semcheck, families, refsem, compare, lang, functor_model
from . import c01

PID = 'C04'
LEVEL = 'model_checking'
TECHNIQUE = 'bounded-exhaustive enumeration of dependency shapes x sets of functor applications, real pipeline on SQLite vs substitution performed on the program model'
ASSUMPTIONS = ['unary predicates over three base tables; substitution on the model clones F and every predicate between F and an argument']

_CASES = None


def cases(thorough):
  global _CASES
  if _CASES is None or _CASES[0] != thorough:
    _CASES = (thorough, list(families.c04_cases(thorough)))
  return _CASES[1]


def plan(ctx):
  n = len(cases(ctx.thorough))
  nsh = min(n, 192 if ctx.thorough else 96)
  return [('fn', ctx.thorough, i, nsh) for i in range(nsh)]


def work(task):
  _, thorough, shard, nsh = task
  cs = cases(thorough)
  h = semcheck.Harness(); h.stats.update(expected_functor_errors=0, twice_applied=0)
  for i in range(shard, len(cs), nsh):
    c = cs[i]
    fs = c.program.functors()
    if len({f.base for f in fs}) < len(fs): h.stats['twice_applied'] += 1
    origin = {}
    try:
      rules = functor_model.expand(c.program, origin)
    except functor_model.FunctorArgumentError as e:
      # must be rejected with FunctorError
      h.stats['programs'] += 1; h.stats['expected_functor_errors'] += 1; h.stats['comparisons'] += 1
      comp = impl.Compiled(c.text()); h.stats['compiles'] += 1
      made = [f.new for f in fs]
      out = comp.sql(made[-1])
      if not (out[0] == 'diag' and out[1] == 'FunctorError'):
        h.add_viol('functor-argument-not-rejected', 'model: %s; implementation: %s | %s' % (e, out[:2] if out[0] != 'script' else 'compiled', semcheck.oneline(c.text())), c)
      continue
    # @OrderBy/@Limit given as annotations: a clone inherits the annotations of the predicate it was made from
    import re as _re
    ol = {}
    for st in c.program.stmts:
      if isinstance(st, lang.Ann):
        m = _re.match(r'@OrderBy\((\w+), (.*)\);', st.text)
        if m: ol.setdefault(m.group(1), [None, None])[0] = [x.strip().strip('"') for x in m.group(2).split(',')]
        m = _re.match(r'@Limit\((\w+), (\d+)\);', st.text)
        if m: ol.setdefault(m.group(1), [None, None])[1] = int(m.group(2))
    for new, old in origin.items():
      if old in ol: ol[new] = ol[old]
    c.ol = {k: tuple(v) for k, v in ol.items()} or None
    h.run_case(c, (lambda case, pred, db, exp, got, diff: 'F44-functor-copies-share-an-explicitly-named-ground-table') if c.family == 'FUNCTOR-GROUND-EXPLICIT' else None, prepared_rules=rules)
  res = h.result(); h.close()
  for v in res['viol']:
    v['case']['pickle'] = base64.b64encode(pickle.dumps(c01.find(cs, v['case']['text']))).decode()
  return res


def coverage(ctx, merged):
  cov = c01.coverage(ctx, merged)
  s = merged['stats']
  cov.update(expected_functor_errors=s.get('expected_functor_errors', 0), programs_applying_one_functor_twice=s.get('twice_applied', 0),
             bounds=dict(derived_predicates=4 if ctx.thorough else 3, applications=3 if ctx.thorough else 2, databases=64))
  return cov


def replay(ctx, case):
  global _CASES
  c = pickle.loads(base64.b64decode(case['pickle']))
  if 'db' in case: c.dbs = [case['db']]; c.fact_dbs = []
  _CASES = (False, [c])
  return work(('fn', False, 0, 1))['viol']


LEVEL_TEXT = ('All dependency shapes of 3 (thorough 4) derived predicates over base tables x all sets of <=2 (thorough 3) `:=` applications (several arguments, functor of a functor '
              'result, the same functor applied twice with equal and with different bindings, arguments reached through chains, an argument that is not a dependency) plus '
              'constants/aggregation/negation/combine/annotated intermediates; every made predicate and every original predicate is compared on 64 databases with the result of '
              'performing the substitution on the program model; non-dependency arguments must raise FunctorError.')
LEVEL_NOTE = 'Trusted: functor_model.expand (40 lines: clone F and everything between F and an argument) + reference evaluator. Bounded: unary predicates, <=4 derived predicates, <=3 applications.'
