"""C03 - recursion is the bounded iteration, and the least fixpoint once it converges."""
import base64, pickle
from .. import impl, explore, semcheck, families, refsem, compare, lang
from . import c01

PID = 'C03'
LEVEL = 'model_checking'
TECHNIQUE = 'bounded-exhaustive enumeration of recursive program shapes x depths (both sides of the >20 iterative switch) x all 3-node graphs and critical chains/cycles; exact T^(depth+1) and sandwich/least-fixpoint oracles from a reference evaluator'
ASSUMPTIONS = ['which clause applies follows the property: exact equality for self-recursive predicates and for components unfolded flat or iteratively; sandwich (bounded subset result subset lfp) for components cut at one predicate',
               'diamond mode (DuckDB only) is not executed']

_CASES = None


def cases(thorough):
  global _CASES
  if _CASES is None or _CASES[0] != thorough:
    _CASES = (thorough, list(families.c03_cases(thorough)))
  return _CASES[1]


def plan(ctx):
  cs = cases(ctx.thorough)
  return [('rec', ctx.thorough, i) for i in range(len(cs))]


def is_cut(ev, p, comp):
  """removing p leaves the component acyclic"""
  rest = set(comp) - {p}
  g = {q: ev.deps(q) & rest for q in rest}
  done = set(); ch = True
  while ch:
    ch = False
    for q in rest:
      if q not in done and g[q] <= done: done.add(q); ch = True
  return done == rest


def clause_for(case, ev, pred):
  """'exact' | 'sandwich' for the recursive component pred depends on (None if pred is not recursive itself: then the
  clause of the components below it matters; we take the weakest among all components it reaches)."""
  kinds = []
  seen = set(); st = [pred]
  while st:
    q = st.pop()
    if q in seen or q not in ev.rules_of: continue
    seen.add(q); st.extend(ev.deps(q))
    comp = ev.component(q)
    if not comp: continue
    depth = max(case.depths.get(m, 8) for m in comp) if case.depths else 8
    deep = set(case.info.get('annotated') or [])
    p = min(comp & deep) if comp & deep else min(comp)
    if len(comp) == 1 or depth > 20: kinds.append('exact')
    elif is_cut(ev, p, comp): kinds.append('sandwich')
    else: kinds.append('exact')
  return 'sandwich' if 'sandwich' in kinds else 'exact'


def expand(case):
  """functor-free rules; a clone made by a functor inherits the recursion depth of the predicate it was made from"""
  from .. import functor_model
  origin = {}
  rules = functor_model.expand(case.program, origin)
  if case.depths:
    for new, old in origin.items():
      if old in case.depths: case.depths[new] = case.depths[old]
  return rules


def work(task):
  _, thorough, idx = task
  case = cases(thorough)[idx]
  h = semcheck.Harness()
  stats = h.stats; stats.update(exact=0, sandwich=0, lfp_reached=0, iterative_plans=0)
  text = case.text()
  rules = expand(case)
  comp = impl.Compiled(text); stats['compiles'] += 1; stats['programs'] += 1
  db = h.conn(case.schema)
  results = set(); nonempty = False
  for pred in case.preds:
    script = comp.sql(pred)
    if script[0] == 'diag' and ('proven to be empty' in script[2] or 'No rules are defining' in script[2]):
      # a predicate that is provably empty within the depth is refused with a diagnostic: accepted iff the bounded iteration of the
      # reference model is empty on every database
      ok = True
      for d in case.dbs:
        ev = refsem.Evaluator(rules, {'E': (['col0', 'col1'], [tuple(r) for r in d['E']])}, depths=case.depths)
        if ev.rows(pred)[1]: ok = False; break
      stats['diagnosed_empty'] = stats.get('diagnosed_empty', 0) + 1
      if ok: continue
    if script[0] != 'script':
      h.add_viol('compile-%s/%s' % (script[1], case.family), 'valid recursive program not compiled: %s %s | %s' % (script[1], script[2][:200], semcheck.oneline(text)), case, dict(pred=pred)); continue
    if script[5].iterations: stats['iterative_plans'] += 1
    ev0 = refsem.Evaluator(rules, {'E': (['col0', 'col1'], [])}, depths=case.depths)
    clause = clause_for(case, ev0, pred) if case.info['kind'] == 'set' else 'exact'
    for d in case.dbs:
      tables = {'E': (['col0', 'col1'], [tuple(r) for r in d['E']])}
      ev = refsem.Evaluator(rules, tables, depths=case.depths)
      exp = ev.rows(pred)
      db.load(d)
      got = db.run(script); stats['executions'] += 1; stats['comparisons'] += 1
      if got[0] != 'rows':
        h.add_viol('sqlerr/%s' % case.family, '%s on %s: %s | %s' % (pred, d, got[1], semcheck.oneline(text)), case, dict(pred=pred, db=d)); break
      results.add(hash(repr(sorted(map(repr, got[2])))));  nonempty = nonempty or bool(got[2])
      diff = None
      if clause == 'exact':
        stats['exact'] += 1
        diff = compare.compare_rows(exp[0], exp[1], got[1], got[2])
        if diff: diff = 'not equal to depth+1 simultaneous applications: ' + diff
      if clause == 'sandwich' or case.info['kind'] == 'set':
        # monotone set-valued: T^(depth+1) subset result subset lfp  (checked for every strategy)
        stats['sandwich'] += 1
        evl = refsem.Evaluator(rules, tables, lfp=True, lfp_cap=200)
        lfp = evl.rows(pred)
        perm = [got[1].index(c) for c in exp[0]] if sorted(exp[0]) == sorted(got[1]) else None
        if perm is None: diff = diff or 'columns %s expected %s' % (got[1], exp[0])
        else:
          G = set(tuple(r[j] for j in perm) for r in got[2]); B = set(exp[1]); L = set(lfp[1])
          if len(G) != len(got[2]) and all(r.distinct for r in ev.rules_of.get(pred, [])) and pred in ev.rules_of: diff = diff or 'duplicate rows in a distinct predicate'
          if not B <= G: diff = diff or 'misses rows derivable within the bound: %s' % sorted(B - G)[:5]
          if not G <= L: diff = diff or 'contains rows outside the least fixpoint: %s' % sorted(G - L)[:5]
          if B == L:
            stats['lfp_reached'] += 1
            if G != L: diff = diff or 'bounded iteration reached the least fixpoint but the result differs from it'
      if diff:
        sig = 'mismatch/%s/%s' % (clause, 'iterative' if script[5].iterations else 'single')
        if case.info['shape'] == 'ring3_through_functor' and pred == 'M' and script[5].iterations and 'misses rows' in diff or case.info['shape'] == 'ring3_through_functor' and pred == 'M' and script[5].iterations and clause == 'exact':
          sig = 'F29-functor-instance-of-an-iterative-multi-predicate-recursion-under-iterates'
        h.add_viol(sig, '%s depth=%s on E=%s: %s | %s' % (pred, case.info['depth'], d['E'], diff, semcheck.oneline(text)), case, dict(pred=pred, db=d))
        break
    # the same iterative plan run the way `logica.py run` runs SQLite programs: preamble, defines_and_exports and the main
    # statement executed once each, in order (sqlite3_logica.RunSqlScript)
    if script[0] == 'script' and script[5].iterations and clause == 'exact':
      for d in case.dbs[::-1][:3]:
        tables = {'E': (['col0', 'col1'], [tuple(r) for r in d['E']])}
        exp = refsem.Evaluator(rules, tables, depths=case.depths).rows(pred)
        db.load(d); got = db.run(script, via_concertina=False); stats['script_path_runs'] = stats.get('script_path_runs', 0) + 1
        diff = compare.compare_rows(exp[0], exp[1], got[1], got[2]) if got[0] == 'rows' else got[1]
        if diff:
          h.add_viol('F28-sqlite-script-execution-runs-iteration-members-once', '%s depth=%s on E=%s, executed as logica.py run does: %s | %s' % (pred, case.info['depth'], d['E'], diff[:300], semcheck.oneline(text)), case, dict(pred=pred, db=d, path='script'))
          break
  if len(results) > 1 and nonempty: stats['nontrivial'] += 1
  h.outcomes |= results
  h.samples.append(dict(family=case.family, program=text, depth=case.info['depth'], databases=len(case.dbs)))
  res = h.result(); h.close()
  res['samples'] = res['samples'][:1] if idx % 40 == 0 else []
  res['stats']['family_' + case.info['shape']] = 1
  for v in res['viol']:
    v['case']['pickle'] = base64.b64encode(pickle.dumps(case)).decode()
  return res


def coverage(ctx, merged):
  s = merged['stats']
  cov = c01.coverage(ctx, merged)
  cov.update(exact_clause_checks=s.get('exact', 0), sandwich_clause_checks=s.get('sandwich', 0), lfp_reached_within_depth=s.get('lfp_reached', 0),
             iterative_plans=s.get('iterative_plans', 0),
             bounds=dict(shapes=len(families.rec_shapes()), depths='default,1,2,3,7,8,19,20,21,22,25,30 (quick: subset; heavy shapes <=3 in quick)', graphs='all 104 digraphs on 3 nodes up to isomorphism + chains/cycles of length depth-1..depth+3'))
  return cov


def replay(ctx, case):
  global _CASES
  c = pickle.loads(base64.b64decode(case['pickle']))
  if 'db' in case: c.dbs = [case['db']]
  if 'pred' in case: c.preds = [case['pred']]
  _CASES = (False, [c])
  return work(('rec', False, 0))['viol']


LEVEL_TEXT = ('23 recursive program shapes (linear/left/non-linear closure, bag and set counters, cuttable and non-cuttable mutual recursion, three-predicate ring, recursion through '
              'Min=/Max=/Sum aggregation, through a functor, with non-recursive intermediates and consumers) x depths on both sides and both parities of the >20 switch to iterative '
              'execution x all 104 three-node digraphs plus chains and cycles around the critical length are compiled and executed (single statement like `logica.py run`, iterative '
              'plans through the real ExecuteLogicaProgram); compared with depth+1 simultaneous rule applications of the reference evaluator (exact clause) and with the '
              'bounded-subset / least-fixpoint sandwich (every monotone set-valued program).')
LEVEL_NOTE = ('Trusted: reference evaluator (bounded iteration and least fixpoint), the classification of which clause applies (component size, depth > 20, cut at the unfolding predicate). '
              'Bounded: depths <=30, 3-node graphs + chains; deep unfolding of non-linear/flat shapes only in thorough.')
