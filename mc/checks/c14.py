"""C14 - Concertina runs each statement after its inputs, the prescribed number of times, and terminates.

Part (a): explicit-state exploration of the real common.concertina_lib.Concertina object over ALL labelled
dependency DAGs up to a node bound x all valid iteration placements x modes x repetitions x stop-signal
schedules (the only environment answer: after which run the stop file becomes non-empty, or an empty file).
Part (b): plans produced by the compiler for @Ground / deep-recursion programs, executed through
ExecuteLogicaProgram on SQLite with a recording runner, for every subset of requested predicates.
"""
import itertools, os, tempfile, shutil, re, io, contextlib
from .. import impl, explore

PID = 'C14'
LEVEL = 'model_checking'
TECHNIQUE = 'explicit-state exploration of the real Concertina scheduler over all DAG x iteration x stop-schedule configurations up to a bound, plus compiled plans with recording SQL runner'
ASSUMPTIONS = ['only configurations for which a correct schedule exists are generated (V1 declared order respects intra-iteration dependencies, V2 the graph with iterations collapsed is acyclic, V3 even member count in half-split mode)',
               'the stop signal is raised by the harness-owned runner after run number k; it latches, so one deviation per run is complete']

NAMES = ['A', 'B', 'C', 'D', 'E']


class Eng:
  """Recording engine; plays the environment (writes the stop file after run number k)."""
  def __init__(self, stop_path=None, raise_at=None, content='stop'):
    self.log = []; self.completion_time = {}; self.stop_path = stop_path; self.raise_at = raise_at; self.content = content

  def Run(self, action):
    self.log.append(action.get('predicate'))
    if self.raise_at is not None and len(self.log) == self.raise_at:
      with open(self.stop_path, 'w') as f: f.write(self.content)


def cfg(name, req, typ='intermediate'):
  return {'name': name, 'type': typ, 'requires': sorted(req), 'action': {'predicate': name, 'launcher': 'none'}}


_DAGS = {}


def dags(names):
  """All labelled DAGs on the given nodes: list of {name: set of required names} (cached; computed in the
  parent before the workers are forked)."""
  n = len(names)
  if n in _DAGS: return _DAGS[n]
  pairs = [(i, j) for i in range(n) for j in range(i + 1, n)]
  out = []
  # each unordered pair: no edge, i required by j, j required by i
  for choice in itertools.product((0, 1, 2), repeat=len(pairs)):
    req = {i: set() for i in range(n)}
    for (i, j), c in zip(pairs, choice):
      if c == 1: req[j].add(i)
      elif c == 2: req[i].add(j)
    done = set(); ch = True
    while ch:
      ch = False
      for v in range(n):
        if v not in done and req[v] <= done: done.add(v); ch = True
    if len(done) == n:
      out.append({names[v]: {names[u] for u in req[v]} for v in range(n)})
  _DAGS[n] = out
  return out


def valid(req, iters):
  """A correct schedule exists: V1 + quotient (iterations collapsed) acyclic."""
  owner = {}
  for it, ms in iters.items():
    pos = {m: i for i, m in enumerate(ms)}
    for m in ms:
      owner[m] = it
      for r in req[m]:
        if r in pos and pos[r] > pos[m]: return False
  q = {}
  for a in req:
    qa = owner.get(a, a)
    q.setdefault(qa, set())
    for r in req[a]:
      qr = owner.get(r, r)
      if qr != qa: q[qa].add(qr)
  done = set(); ch = True
  while ch:
    ch = False
    for v in q:
      if v not in done and q[v] <= done: done.add(v); ch = True
  return len(done) == len(q)


def model_iteration_seq(ms, R, positions, raised_after):
  """Reference model of one iteration: round robin in declared order; a member stops after the first of its runs
  that ends with the signal up (or after R runs). positions[i] = index in the global log of the i-th member run."""
  seq = []; counts = {m: 0 for m in ms}; queue = list(ms)
  while queue:
    m = queue.pop(0); seq.append(m); counts[m] += 1
    idx = len(seq) - 1
    pos = positions[idx] if idx < len(positions) else None
    up = raised_after is not None and pos is not None and pos + 1 >= raised_after
    if counts[m] >= R: continue
    if up: continue
    if pos is None: break   # actual log is shorter than the model: reported by the comparison
    queue.append(m)
  return seq


def check_log(req, iters, log, raised_after):
  v = []
  members = {m: i for i, it in iters.items() for m in it['predicates']}
  first = {}; last = {}
  for idx, a in enumerate(log):
    first.setdefault(a, idx); last[a] = idx
  for a in req:
    if a not in first: v.append(('I2-never-ran', '%s never ran' % a)); continue
    for r in req[a]:
      if r not in first: continue
      if r in members and members.get(a) != members[r]:
        it = members[r]
        lastm = max(last[m] for m in iters[it]['predicates'] if m in last)
        if not lastm < first[a]: v.append(('I1-before-iteration-finished', '%s ran before the iteration of %s finished' % (a, r)))
      elif r in members:
        pass
      elif not first[r] < first[a]:
        kind = 'member' if a in members else 'plain'
        v.append(('I1-%s-before-requirement' % kind, '%s ran before its requirement %s' % (a, r)))
  for a in req:
    if a not in members and log.count(a) != 1: v.append(('I2-count', '%s ran %d times' % (a, log.count(a))))
  for i, it in iters.items():
    ms = [m for m in it['predicates'] if m in req]
    idxs = [k for k, a in enumerate(log) if a in ms]
    seq = [log[k] for k in idxs]
    exp = model_iteration_seq(ms, it['repetitions'], idxs, raised_after if it.get('stop_signal') else None)
    if seq != exp: v.append(('I3-sequence', 'iteration %s ran %s, model %s' % (i, seq, exp)))
    if idxs and any(log[k] not in ms for k in range(idxs[0], idxs[-1] + 1)): v.append(('I3-foreign-action-inside', 'foreign action inside iteration %s' % i))
  return v


def run_config(cl, req, iters, stop_path, raise_at, content, states):
  """Build the real Concertina for one configuration and run it step by step. -> (log, violations, steps)"""
  if stop_path and os.path.exists(stop_path): os.remove(stop_path)
  if raise_at == 0:
    with open(stop_path, 'w') as f: f.write(content)
  e = Eng(stop_path, raise_at if raise_at else None, content)
  config = [cfg(a, req[a]) for a in sorted(req)]
  horizon = sum(1 for a in req) + sum(it['repetitions'] * len(it['predicates']) for it in iters.values()) + 2
  try:
    c = cl.Concertina(config, e, display_mode='silent', iterations=iters)
    steps = 0
    while c.actions_to_run and steps <= horizon:
      if states is not None:
        states.add((tuple(c.actions_to_run), tuple(sorted(c.action_iterations_complete.items())),
                    frozenset(c.complete_actions), bool(c.wrench_in_gears)))
      c.RunOneAction(); steps += 1
    if c.actions_to_run: return e.log, [('I4-no-termination', 'still %s to run after %d steps' % (c.actions_to_run, steps))], steps
    if set(c.complete_actions) != set(req): return e.log, [('I2-incomplete', 'complete=%s' % sorted(c.complete_actions))], steps
  except AssertionError as ex:
    return e.log, [('assert', 'AssertionError: ' + str(ex)[:80].split('\n')[0])], 0
  except Exception as ex:
    return e.log, [('exception:' + type(ex).__name__, str(ex)[:100])], 0
  ra = None
  if raise_at is not None and content: ra = raise_at if raise_at > 0 else 0
  return e.log, check_log(req, iters, e.log, ra), steps


def iteration_choices(names, two):
  """All placements of one (or two disjoint) iteration(s): ordered subsets of 2..4 nodes, mode, repetitions."""
  singles = []
  for k in (2, 3, 4):
    if k > len(names): continue
    for ms in itertools.permutations(names, k):
      for mode in (None, 'diamond'):
        if mode is None and k % 2: continue
        singles.append((ms, mode))
  out = [[]] + [[s] for s in singles]
  if two:
    for (m1, mo1), (m2, mo2) in itertools.combinations(singles, 2):
      if set(m1) & set(m2): continue
      if len(m1) + len(m2) > len(names): continue
      out.append([(m1, mo1), (m2, mo2)])
  return out


def plan(ctx):
  dags(NAMES[:4])
  tasks = [('abstract', 4, i, 48, 'full') for i in range(48)]
  if ctx.thorough:
    dags(NAMES[:5])
    tasks += [('abstract', 5, i, 512, 'reduced') for i in range(512)]
  tasks += compiled_tasks(ctx)
  return tasks


def work(task):
  if task[0] == 'abstract': return work_abstract(task)
  return work_compiled(task)


def work_abstract(task):
  _, n, shard, nsh, breadth = task
  reduced = breadth == 'reduced'
  cl = impl.M('common.concertina_lib')
  names = NAMES[:n]
  tmp = tempfile.mkdtemp(prefix='verif_c14_')
  stop_path = os.path.join(tmp, 'stop')
  states = set(); nconf = 0; nruns = 0; steps = 0; bad = {}; samples = []; outcomes = set(); nontriv = 0
  choices = iteration_choices(names, two=True)
  reps = (1, 2, 3)
  try:
    for di, req in enumerate(dags(names)):
      if di % nsh != shard: continue
      for ch in choices:
        for rr in itertools.product(reps, repeat=len(ch)) if ch else [()]:
          if reduced and len(ch) == 2 and rr not in ((2, 2), (1, 2)): continue
          if not reduced and len(ch) == 2 and rr not in ((1, 1), (2, 2), (1, 2), (2, 1), (2, 3), (3, 2)): continue
          for with_signal in ((False, True) if ch else (False,)):
            # 5 nodes (thorough): every stop schedule for repetitions 2 of a single iteration; no-signal runs for all repetitions
            if reduced and with_signal and (len(ch) == 2 or rr != (2,)): continue
            if not reduced and with_signal and len(ch) == 2 and rr != (2, 2): continue
            iters = {}
            for j, ((ms, mode), R) in enumerate(zip(ch, rr)):
              iters['I%d' % j] = {'predicates': list(ms), 'repetitions': R, 'stop_signal': stop_path if with_signal else None, 'mode': mode}
            if not valid(req, {k: v['predicates'] for k, v in iters.items()}): continue
            nconf += 1
            total = len(names) + sum(v['repetitions'] * len(v['predicates']) - len(v['predicates']) for v in iters.values())
            if with_signal:
              sched = [(k, 'stop') for k in range(0, total + 1)] + [(1, '')]
            else:
              sched = [(None, 'stop')]
            for raise_at, content in sched:
              log, vs, st = run_config(cl, req, iters, stop_path, raise_at, content, states)
              nruns += 1; steps += st; outcomes.add(tuple(log))
              if len(set(log)) < len(log): nontriv += 1
              if len(samples) < 2 and iters and with_signal and raise_at == 3:
                samples.append(dict(requires={a: sorted(r) for a, r in req.items()}, iterations={k: dict(v, stop_signal='<stop file>') for k, v in iters.items()},
                                    stop_raised_after_run=raise_at, observed_run_sequence=log))
              for sig, what in vs:
                half = any(v.get('mode') is None for v in iters.values())
                sig2 = sig + ('/half-split' if half else '/diamond' if iters else '/plain')
                bad.setdefault(sig2, []).append(dict(sig=sig2, what='%s | requires=%s iterations=%s stop_after=%r log=%s' % (
                  what, {a: sorted(r) for a, r in req.items()}, {k: (v['predicates'], v['mode'], v['repetitions']) for k, v in iters.items()}, (raise_at, content), log),
                  case=dict(kind='abstract', req={a: sorted(r) for a, r in req.items()},
                            iters={k: dict(predicates=v['predicates'], mode=v['mode'], repetitions=v['repetitions'], signal=bool(v['stop_signal'])) for k, v in iters.items()},
                            raise_at=raise_at, content=content)))
  finally:
    shutil.rmtree(tmp, ignore_errors=True)
  viol = []
  stats = dict(configs=nconf, runs=nruns, steps=steps, nontrivial=nontriv)
  for s, vs in bad.items():
    vs.sort(key=lambda v: len(v['what'])); viol.extend(vs[:2]); stats['viol_' + s] = len(vs)
  return dict(stats=stats, viol=viol, samples=samples, keys=dict(states=states, outcomes={hash(o) for o in outcomes}))


# ---------------------------------------------------------------------------------------------------------
# Part (b): compiled plans.
PROGRAMS = {
  'ground_chain': ('''@Engine("sqlite");
@Ground(P); @Ground(Q);
B(1); B(2); B(3);
P(x) :- B(x), x > 1;
Q(x + 10) :- P(x);
R(x, y) :- Q(x), P(y);
S(x) :- R(x, y), y == 2;
''', ['P', 'Q', 'R', 'S']),
  'ground_diamond': ('''@Engine("sqlite");
@Ground(L); @Ground(M); @Ground(N);
B(1); B(2);
L(x) :- B(x);
M(x + 1) :- L(x);
N(x + 2) :- L(x);
T(x, y) :- M(x), N(y);
U(s? += x) distinct :- T(x, y);
''', ['L', 'M', 'N', 'T', 'U']),
  'with_tables_shared_by_grounded_parents': ('''@Engine("sqlite");
@Ground(Stock); @Ground(Alpha); @Ground(Brief);
Item(1); Item(2); Item(7);
Stock(x) :- Item(x), x > 1;
W1(x) :- Item(x), x < 5;
W1(x + 1) :- Item(x), x > 5;
W2(x) :- Stock(x), x > 0;
W2(x) :- Stock(x), x > 5;
Alpha(x) :- W1(x), W2(x);
Brief(x) :- W1(x), W2(x + 5);
T(x, y) :- Alpha(x), Brief(y);
''', ['T', 'Alpha', 'Brief', 'Stock']),
  'with_table_shared_by_four_grounded_parents': ('''@Engine("sqlite");
@Ground(Zbase); @Ground(A1); @Ground(A2); @Ground(A3); @Ground(A4);
Item(1); Item(2); Item(7);
Zbase(x) :- Item(x), x > 1;
W2(x) :- Zbase(x), x > 0;
W2(x) :- Zbase(x), x > 5;
Total(s? += x) distinct :- Zbase(x);
A1(x) :- W2(x), Total(s:);
A2(x + 1) :- W2(x);
A3(y) :- Total(s: y);
A4(x, y) :- W2(x), Total(s: y), W2(y - 2);
T(a, b, c, d) :- A1(a), A2(b), A3(c), A4(d, e);
''', ['T', 'A1', 'A2', 'A3', 'A4', 'Zbase']),
  'deep_recursion': ('''@Engine("sqlite");
@Recursive(N, 25);
@Ground(Start);
Start(0);
N(x) :- Start(x);
N(x + 1) :- N(x), x < 40;
Top(m? Max= x) distinct :- N(x);
Cnt(c? += 1) distinct :- N(x);
''', ['Start', 'N', 'Top', 'Cnt']),
  'two_deep_rings': ('''@Engine("sqlite");
@Recursive(A, 32);
A() = 0;
B() = A() + 1;
C() = B() + 1;
A() = C() + 1;
@Recursive(P, 32);
P() = 0;
Q() = P() + 1;
S() = Q() + 1;
P() = S() + 1;
@OrderBy(Test, "col0");
Test("A") Max= A();
Test("P") Max= P();
Only(x) :- x == S();
''', ['Test', 'Only', 'C']),
  'user_iteration': ('''@Engine("sqlite");
@Ground(T0); @Ground(T1); @Ground(T2, T0);
T0(0);
T1(x + 1) :- T0(x), x < 100;
T1(x) :- T0(x);
T2(x) distinct :- T1(x);
@Iteration(Loop, predicates: [T1, T2], repetitions: 5);
Out(x) :- T2(x);
''', ['Out', 'T2', 'T1']),
  'deep_mutual': ('''@Engine("sqlite");
@Recursive(Ev, 22);
E(0, 1); E(1, 2); E(2, 3); E(3, 4); E(4, 5); E(5, 6);
Ev(0) distinct;
Od(y) distinct :- Ev(x), E(x, y);
Ev(y) distinct :- Od(x), E(x, y);
Both(x) :- Ev(x) | Od(x);
''', ['Ev', 'Od', 'Both']),
}


def compiled_tasks(ctx):
  tasks = []
  for name, (text, preds) in PROGRAMS.items():
    subsets = []
    for k in range(1, len(preds) + 1):
      subsets += list(itertools.combinations(preds, k))
    for sh in explore.shards(subsets, 4):
      tasks.append(('compiled', name, [list(s) for s in sh]))
  return tasks


TABLE_RE = re.compile(r'(?:CREATE TABLE(?: IF NOT EXISTS)?|DROP TABLE(?: IF EXISTS)?)\s+([A-Za-z_][\w.]*)', re.I)


def run_plan(text, preds, record, one_program=False):
  """Compile each requested predicate from a fresh program (as logica.py does for run_in_terminal) and execute
  through the real ExecuteLogicaProgram with a recording runner on one SQLite connection."""
  u = impl.M('compiler.universe'); cl = impl.M('common.concertina_lib'); sl = impl.M('common.sqlite3_logica')
  rules = impl.quiet(impl.parse, text)['rule']
  execs = []
  shared = impl.quiet(u.LogicaProgram, rules) if one_program else None     # tools/run_in_terminal.RunMany compiles every predicate from ONE program object
  for p in preds:
    prog = shared or impl.quiet(u.LogicaProgram, rules)
    impl.quiet(prog.FormattedPredicateSql, p)
    execs.append(prog.execution)
  con = sl.SqliteConnect()
  def runner(sql, engine, is_final):
    record.append(sql)
    if is_final:
      cur = con.execute(sql)
      return ([d[0] for d in cur.description], sorted(cur.fetchall(), key=repr))
    con.executescript(sql)
  with contextlib.redirect_stdout(io.StringIO()):
    res = cl.ExecuteLogicaProgram(execs, runner, 'sqlite', display_mode='silent')
  con.close()
  return res, execs


def reads_and_writes(sql, known_tables):
  """Independent re-derivation of dependencies from the SQL text: a statement writes the tables it CREATEs and
  reads every other known table whose name occurs as a word in it."""
  writes = set(m.group(1) for m in re.finditer(r'CREATE TABLE(?: IF NOT EXISTS)?\s+([A-Za-z_][\w.]*)', sql, re.I))
  reads = set()
  for t in known_tables:
    if t in writes: continue
    if re.search(r'(?<![\w.])' + re.escape(t) + r'(?![\w])', sql): reads.add(t)
  return reads, writes


def action_log(rec, execs):
  """Map every recorded SQL text back to the Concertina action that issued it (the runner is not told the name)."""
  finals = {e.main_predicate for e in execs}
  sql2action = {}
  for e in execs:
    for k, v in e.table_to_export_map.items():
      name = ('\u2913' + k) if (k in finals and k != e.main_predicate) else k
      sql2action.setdefault(e.PredicateSpecificPreamble(e.main_predicate) + v, set()).add(name)
  log = []; unknown = 0
  for s in rec:
    names = sql2action.get(s)
    if names is None: unknown += 1; continue
    log.append(sorted(names)[0])
  return log, unknown


def work_compiled(task):
  _, name, subsets = task
  text, preds = PROGRAMS[name]
  bad = []; stats = dict(plans=0, statements=0, plan_comparisons=0); samples = []
  single = {}
  def viol(sig, what, subset):
    if name == 'user_iteration' and any(m in subset for m in ('T1', 'T2')): sig = 'F50-member-of-a-user-written-iteration-requested/' + sig.split('/')[0]
    bad.append(dict(sig=sig + '/compiled', what='%s | program=%s requested=%s' % (what, name, subset), case=dict(kind='compiled', program=name, subset=subset)))
  for p in preds:
    rec = []
    try:
      res, _ = run_plan(text, [p], rec)
      single[p] = res[p]
    except Exception as e:
      single[p] = ('error', type(e).__name__, str(e)[:200])
  for subset, one_program in [(sb, op) for sb in subsets for op in ((False, True) if len(sb) > 1 else (False,))]:
    rec = []
    try:
      res, execs = run_plan(text, subset, rec, one_program)
    except Exception as e:
      viol('exception:' + type(e).__name__, str(e)[:200], subset); continue
    stats['plans'] += 1; stats['statements'] += len(rec)
    # I5: same table as when asked alone
    for p in subset:
      stats['plan_comparisons'] += 1
      if res.get(p) != single[p]:
        viol('I5-differs-from-single-request', 'predicate %s: %r vs alone %r' % (p, res.get(p), single[p]), subset)
    # I1-I3 on the sequence of actions, with the dependency edges the compiler recorded ...
    log, unknown = action_log(rec, execs)
    preambles = len({e.preamble for e in execs if e.preamble})
    if unknown != preambles:
      viol('unattributed-statement', '%d statements run that belong to no action (preambles: %d)' % (unknown, preambles), subset)
    finals = {e.main_predicate for e in execs}
    req = {}; iters = {}
    for e in execs:
      ren = lambda k, e=e: ('\u2913' + k) if (k in finals and k != e.main_predicate and k in e.table_to_export_map) else k
      for k in e.table_to_export_map: req.setdefault(ren(k), set())
      for a, b in set(e.dependency_edges) | set(e.data_dependency_edges):
        if ren(b) in req or b in e.table_to_export_map: req.setdefault(ren(b), set()).add(ren(a))
      for itn, it in e.iterations.items():
        iters[itn] = dict(predicates=list(it['predicates']), repetitions=it['repetitions'], stop_signal=None, mode=it.get('mode'))
    req = {a: {r for r in rs if r in req} for a, rs in req.items()}
    # I6 (closure): a plan that contains one member of an iteration contains all of them (otherwise the repetition cannot be performed)
    for e in execs:
      for itn, it in e.iterations.items():
        present = [m for m in it['predicates'] if m in e.table_to_export_map]
        if present and len(present) != len(it['predicates']):
          viol('I6-iteration-not-closed', 'plan for %s contains members %s of iteration %s but not %s' % (e.main_predicate, present, itn, [m for m in it['predicates'] if m not in present]), subset)
    for sig, what in check_log(req, iters, log, None):
      viol(sig, what + ' log=%s' % log, subset)
    # ... and I1 again with dependencies re-derived from the SQL text alone: no statement reads a table that no
    # earlier statement created (catches a dependency edge the compiler forgot to record).
    created_all = set()
    for s in rec:
      created_all |= set(re.findall(r'CREATE TABLE(?: IF NOT EXISTS)?\s+([A-Za-z_][\w.]*)', s, re.I))
    produced = set()
    for s in rec:
      reads, writes = reads_and_writes(s, created_all)
      for t in reads:
        if t not in produced:
          viol('I1-read-before-produced', 'statement creating %s reads %s before it was produced' % (sorted(writes), t), subset)
      produced |= writes
    if len(samples) < 1 and len(subset) > 1:
      samples.append(dict(program=name, requested=subset, statements_run=len(rec), action_sequence=log[:16]))
  return dict(stats=stats, viol=bad[:6], samples=samples)


def coverage(ctx, merged):
  s = merged['stats']; k = merged['keys']
  return dict(
    states=len(k.get('states', ())), transitions=s.get('steps', 0) + s.get('statements', 0),
    traces_validated_against_impl=s.get('runs', 0) + s.get('plan_comparisons', 0),
    samples=merged['samples'], exhaustive=True,
    evaluations=s.get('runs', 0) + s.get('plans', 0), distinct_nontrivial=len(k.get('outcomes', ())),
    rule='state = distinct (actions_to_run, counters, complete set, signal latched) of the real Concertina object; transition = one RunOneAction / one SQL statement; '
         'evaluation = one complete run of one configuration x stop schedule; distinct_nontrivial = distinct observed run sequences',
    configurations=s.get('configs', 0), runs=s.get('runs', 0), runs_with_repetition=s.get('nontrivial', 0),
    compiled_plans=s.get('plans', 0), sql_statements_run=s.get('statements', 0),
    bounds=dict(nodes=4, iterations='1 (all repetitions 1-3, every stop schedule) and 2 disjoint (repetition pairs (1,1),(2,2),(1,2),(2,1),(2,3),(3,2); stop schedules at (2,2))', repetitions=[1, 2, 3], members='2..4', stop='after every run k, before the first run, empty file',
                five_nodes=('all DAGs x one iteration x repetitions 1-3 without signal, every stop schedule at repetitions 2, two iterations at repetitions (2,2),(1,2) without signal' if ctx.thorough else 'not in this tier')), cap_hit=False)


def replay(ctx, case):
  if case['kind'] == 'compiled':
    r = work_compiled(('compiled', case['program'], [case['subset']]))
    return r['viol']
  cl = impl.M('common.concertina_lib')
  tmp = tempfile.mkdtemp(prefix='verif_c14_'); stop_path = os.path.join(tmp, 'stop')
  try:
    req = {a: set(r) for a, r in case['req'].items()}
    iters = {k: {'predicates': v['predicates'], 'mode': v['mode'], 'repetitions': v['repetitions'], 'stop_signal': stop_path if v['signal'] else None}
             for k, v in case['iters'].items()}
    log, vs, _ = run_config(cl, req, iters, stop_path, case['raise_at'], case['content'], None)
    half = any(v.get('mode') is None for v in iters.values())
    suffix = '/half-split' if half else '/diamond' if iters else '/plain'
    return [dict(sig=s + suffix, what=w + ' log=%s' % log, case=case) for s, w in vs]
  finally:
    shutil.rmtree(tmp, ignore_errors=True)


LEVEL_TEXT = ('Explicit-state exploration of the real scheduler object: every labelled dependency DAG on <=4 (thorough: 5) nodes, every valid placement of an '
              'iteration (thorough: two) of 2-4 ordered members in both modes, repetitions 1-3, and every stop-signal schedule (raised before the first run, after '
              'every run k, or an empty file) is run to completion step by step; dependency order, exactly-once, the exact round-robin/stop sequence predicted by a '
              'list-based reference model, contiguity and termination are checked on every run. Compiled @Ground / deep-recursion plans are executed through '
              'ExecuteLogicaProgram for every subset of requested predicates with dependencies re-derived from the SQL text.')
LEVEL_NOTE = ('Trusted: the validity rules V1-V3 that define which configurations have a correct schedule, the 15-line round-robin reference model, SQLite. '
              'Bounded: <=5 nodes, <=2 iterations, repetitions <=3; diamond-mode plans are only explored at the scheduler level (DuckDB is not installed).')
