"""C07 - results do not depend on the textual order or naming used in a program."""
import base64, pickle, copy
from .. import impl, explore, semcheck, families, refsem, variants, functor_model, compare
from ..semcheck import Case
from . import c01, c02

PID = 'C07'
LEVEL = 'model_checking'
TECHNIQUE = 'exhaustive enumeration of permutations (statements, conjuncts, nested bodies, disjuncts, row arrival order) and order-flipping renamings (variables, predicates) of generated programs; every variant executed on SQLite and compared with the reference result of the original'
ASSUMPTIONS = ['bodies of <=3 conjuncts get all permutations, longer ones reversal and two rotations; renamings: four variable maps chosen to flip/rotate sorted order and collide with generated names, one predicate map reversing alphabetical order',
               'element order of List and the choice among tied ArgMin/ArgMax candidates are free (property text)']

_CASES = None


def base_cases(thorough):
  step = 1 if thorough else 5
  out = []
  for gen, st in ((families.c01_cases(False), step), (families.c02_cases(False), step), (families.c04_cases(False), step * 12)):
    by = {}
    for c in gen:
      if c.family in families.FINDING_FAMILIES: continue      # recorded under the property of their own check (findings F44, F46)
      by.setdefault(c.family, []).append(c)
    for fam, cs in by.items():
      out += cs[::st]
      out += [c for k, c in enumerate(cs) if k % st and 'K(a, ' in c.text()]     # every K-best aggregate program (row-arrival order matters most there)
  for c in families.c03_cases(False):
    if c.info['depth'] in (2, 3, 21) and c.info['shape'] in ('tc_right', 'mutual_cut', 'even_odd', 'mutual_flat_small', 'ring3', 'shortest_path', 'through_functor', 'two_components', 'counter_set', 'tc_one_rule_base_first', 'tc_one_rule_base_last', 'tc_one_rule_bag_base_first', 'tc_one_rule_bag_base_last'):
      c.dbs = c.dbs[::4]
      out.append(c)
  out += array_cases()
  return out


def array_cases():
  """Array= (key -> value) with repeated keys: every pair is kept, so (unlike tied ArgMin/ArgMax) nothing is chosen and the value may not
  depend on arrival order. No reference model: variants are compared with the implementation's own result on the original."""
  from ..lang import R, Lit, V, N, Bin, Aggr, Comb, Eq, Program
  x, y, z = V('x'), V('y'), V('z')
  arrow = lambda a, b: ('arrow', a, b)
  dbs = [d for d in semcheck.dbs_ab(3) if len(d['B']) <= 1 and len({r[1] for r in d['A']}) < len(set(d['A']))]     # some key (col1) carries two different values
  progs = [
    [R('T', Aggr('Array', arrow(y, x)), body=(Lit('A', x, y),), distinct=True)],
    [R('T', y, Aggr('Array', arrow(y, x)), body=(Lit('A', x, y),), distinct=True)],
    [R('T', Aggr('Array', arrow(y, Bin('*', x, N(10)))), Aggr('Sum', x), body=(Lit('A', x, y),), distinct=True)],
    [R('T', Aggr('Array', arrow(N(1), ('list', (x, y)))), body=(Lit('A', x, y),), distinct=True)],
    [R('T', Aggr('Array', arrow(y, x)), body=(Lit('A', x, y),), distinct=True), R('T', Aggr('Array', arrow(x, y)), body=(Lit('A', x, y), Lit('B', x)), distinct=True)],
    [R('T', z, V('s'), body=(Lit('B', z), Eq(V('s'), Comb('Array', arrow(y, x), (Lit('A', x, y),)))))],
  ]
  return [Case('ARRAY', Program(p), ['T'], dbs=dbs, fact_dbs=[dbs[5]], info=dict(shape='array', depth=0)) for p in progs]


def cases(thorough):
  global _CASES
  if _CASES is None or _CASES[0] != thorough:
    _CASES = (thorough, base_cases(thorough))
  return _CASES[1]


def plan(ctx):
  n = len(cases(ctx.thorough))
  nsh = min(n, 160)
  return [('var', ctx.thorough, i, nsh) for i in range(nsh)]


def reorder_rows(d, k):
  """same multiset, different arrival order"""
  out = {}
  for t, rows in d.items():
    rows = list(rows)
    out[t] = rows[::-1] if k == 0 else rows[1:] + rows[:1]
  return out


def work(task):
  _, thorough, shard, nsh = task
  cs = cases(thorough)
  h = c02.Harness2(); h.stats.update(variants=0, base_programs=0)
  kinds = {}
  for i in range(shard, len(cs), nsh):
    c = cs[i]
    h.stats['base_programs'] += 1
    # the reference result is computed from the ORIGINAL program (functor-expanded), variants only go through the implementation
    origin = {}
    try:
      orig_rules = functor_model.expand(c.program, origin)
    except functor_model.FunctorArgumentError:
      continue
    depths = dict(c.depths or {})
    for new, old in origin.items():
      if old in depths: depths[new] = depths[old]
    dbs = (c.dbs or [])[::2] + [d for d in (c.dbs or [])[1::2] if max(len(v) for v in d.values()) >= 4]
    # recursion that is cut at one predicate is only sandwiched by the reference semantics (C03): for those shapes the
    # variant is compared with the implementation's own result on the original program (metamorphic oracle)
    orig_impl = None
    if c.family == 'ARRAY' or c.family.startswith('REC/') and c.info['shape'] in ('mutual_cut', 'even_odd', 'ring3') and c.info['depth'] <= 20:
      orig_impl = {}
      comp = impl.Compiled(c.text()); conn = h.conn(c.schema)
      for pred in c.preds:
        script = comp.sql(pred)
        for d in dbs + (c.fact_dbs or [])[:1]:
          conn.load(d); got = conn.run(script) if script[0] == 'script' else script
          if got[0] == 'rows': orig_impl[(pred, repr(sorted(d.items())))] = (got[1], [tuple(compare.norm_got(v) for v in r) for r in got[2]])
    for v in variants.variants(c.program, c.preds, thorough):
      kind, prog, preds = v[0], v[1], v[2]
      pm = v[3] if len(v) > 3 else {}
      h.stats['variants'] += 1; kinds[kind] = kinds.get(kind, 0) + 1
      vc = Case('%s~%s' % (c.family.split('/')[0], kind), prog, preds, c.schema, dbs=dbs, fact_dbs=(c.fact_dbs or [])[:1], depth=c.depth, info=c.info)
      vc.depths = {pm.get(k, k): d for k, d in depths.items()} if depths else None
      vc.ol = getattr(c, 'ol', None)
      inv = {b: a for a, b in pm.items()}
      vc.orig = (orig_rules, depths, inv); vc.orig_impl = orig_impl
      if orig_impl is not None: vc.fact_dbs = []
      h.run_case(vc, c02.classify)
    # row arrival order (fact order and table insertion order)
    for k in (0, 1):
      rc = Case('%s~rows' % c.family.split('/')[0], c.program, c.preds, c.schema, dbs=[reorder_rows(d, k) for d in dbs[::2]], fact_dbs=[reorder_rows(d, k) for d in (c.fact_dbs or [])[:1]], depth=c.depth, info=c.info)
      rc.depths = depths or None; rc.orig = (orig_rules, depths, {}); rc.orig_impl = orig_impl
      if orig_impl is not None: rc.fact_dbs = []
      h.stats['variants'] += 1; kinds['rows'] = kinds.get('rows', 0) + 1
      h.run_case(rc, c02.classify)
  res = h.result(); h.close()
  for k, n in kinds.items(): res['stats']['kind_' + k] = n
  for v in res['viol']:
    v['case'].pop('pickle', None)
  return res


class _H(c02.Harness2):
  pass


def expected_via_original(self, case, pred, db, rules=None):
  """reference rows of the ORIGINAL program for the predicate that the variant's predicate was renamed from"""
  orig_rules, depths, inv = case.orig
  if getattr(case, 'orig_impl', None) is not None:
    key = (inv.get(pred, pred), repr(sorted((t, sorted(rows)) for t, rows in db.items())))
    for (p, dk), val in case.orig_impl.items():
      if p == key[0] and sorted(eval(dk)) and repr(sorted((t, sorted(rows)) for t, rows in eval(dk))) == key[1]: return val
    raise refsem.Unsupported('no original result')
  tables = {t: (semcheck.SCHEMAS[case.schema][t], [tuple(r) for r in rows]) for t, rows in db.items()}
  for t, cols in semcheck.SCHEMAS[case.schema].items(): tables.setdefault(t, (cols, []))
  ev = refsem.Evaluator(orig_rules, tables, depth=case.depth, depths=depths or None, ol=getattr(case, 'ol', None))
  cols, rows = ev.rows(inv.get(pred, pred))
  if case.info == 'keyless' and not rows: raise refsem.Unsupported('key-less aggregate over no solution')
  return cols, rows


c02.Harness2.expected_orig = c02.Harness2.expected
def _expected(self, case, pred, db, rules=None):
  if hasattr(case, 'orig'): return expected_via_original(self, case, pred, db, rules)
  return c02.Harness2.expected_orig(self, case, pred, db, rules)
c02.Harness2.expected = _expected


def coverage(ctx, merged):
  s = merged['stats']
  cov = c01.coverage(ctx, merged)
  cov.update(base_programs=s.get('base_programs', 0), variants=s.get('variants', 0), variant_kinds={k[5:]: v for k, v in s.items() if k.startswith('kind_')},
             bounds=dict(base='every 5th (thorough: every) program of each C01/C02 family, every 60th (12th) C04 program, 9 recursion shapes at depths 2,3,21', databases='every second database of the family'))
  cov['rule'] = 'state = one variant (permutation / renaming / row order) of a generated program; transition = one execution; the expected rows come from the reference evaluator applied to the ORIGINAL program'
  return cov


def replay(ctx, case):
  # variants are regenerated deterministically: re-run the shard that contains the program text
  global _CASES
  for thorough in (False, True):
    cs = cases(thorough)
    for i, c in enumerate(cs):
      for v in variants.variants(c.program, c.preds, thorough):
        if v[1].text() == case['text'] or case['text'].endswith(v[1].text().split('\n', 1)[1]):
          _CASES = (thorough, [c])
          return [x for x in work(('var', thorough, 0, 1))['viol']]
    _CASES = None
  return []


LEVEL_TEXT = ('For a stratified sub-enumeration (thorough: all) of the C01/C02/C03/C04 program families every permutation of the conjuncts of each body of <=3 conjuncts, reversal of nested bodies and '
              'disjuncts, every permutation of the statements (<=3) or reversal/rotations, four variable renamings that flip or rotate sorted order and collide with generated names (col0, value, arg, '
              'x_1, t_0, ...), a predicate renaming reversing alphabetical order, and reordered row arrival are compiled and executed; each variant must return the rows the reference '
              'evaluator assigns to the ORIGINAL program.')
LEVEL_NOTE = 'Trusted: reference evaluator, variant generator (pure AST rewriting). Bounded: as the underlying families; all permutations only for <=3 elements.'
