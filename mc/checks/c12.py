"""C12 - imports isolate modules and mean the same as one flattened program."""
import itertools, os, tempfile, shutil, json
from .. import impl, explore, parsers, refsem, compare, lang
from ..lang import R, Rule, Lit, V, N, Bin, Program

PID = 'C12'
LEVEL = 'model_checking'
TECHNIQUE = 'exhaustive enumeration of import graphs (DAGs, directory layouts incl. shared base names, aliases, one or two import roots) and of negative graphs, written to scratch directories; both parsers; rules and SQLite rows vs the flattened single-file program evaluated by the reference model'
ASSUMPTIONS = ['module bodies are one private predicate with module-specific facts and one public predicate reading it and the imported public predicates, so that any name collision changes the result',
               'modules import with `as`; the main file imports its first module without alias and the others with alias (and all with alias in a second variant)']

x = V('x')

LAYOUTS = {
  1: [('m1',), ('d/m1',), ('d/e/m1',)],
  2: [('m1', 'm2'), ('d/m1', 'm2'), ('d/m', 'e/m'), ('d/e/m', 'f/e/m'), ('d/m', 'm'), ('d/e/m', 'e/m')],
  3: [('m1', 'm2', 'm3'), ('d/m', 'e/m', 'm3'), ('d/m', 'e/m', 'm'), ('d/e/m', 'd/f/m', 'e/f/m'), ('d/m1', 'd/m2', 'e/m1')],
  4: [('m1', 'm2', 'm3', 'm4'), ('d/m', 'e/m', 'f/m', 'g/m'), ('d/e/m', 'd/f/m', 'e/f/m', 'e/d/m')],
}


def graphs(nmax):
  """(n, edges i->j meaning module i imports module j (i<j), main imports, layout, roots, all_alias)"""
  for n in range(1, nmax + 1):
    pairs = [(i, j) for i in range(n) for j in range(i + 1, n)]
    for k in range(len(pairs) + 1):
      for edges in itertools.combinations(pairs, k):
        for m in range(1, n + 1):
          for main in itertools.combinations(range(n), m):
            # every module must be reachable from main (an unreachable file is simply never read)
            reach = set(main); ch = True
            while ch:
              ch = False
              for i, j in edges:
                if i in reach and j not in reach: reach.add(j); ch = True
            if len(reach) != n: continue
            for layout in LAYOUTS[n]:
              for roots in (1, 2):
                for all_alias in (False, True):
                  yield dict(n=n, edges=list(edges), main=list(main), layout=layout, roots=roots, all_alias=all_alias)


def wide_graphs():
  """a dozen modules (prefixes and counters with two digits), all sharing one base name or numbered m1..m12: chain, star, tree, all imported by main"""
  n = 12
  shared = tuple('d%d/m' % i for i in range(n)); nested = tuple('d%d/e/m' % i for i in range(n)); numbered = tuple('m%d' % (i + 1) for i in range(n))
  chain = [(i, i + 1) for i in range(n - 1)]; star = [(0, j) for j in range(1, n)]; tree = [(i, j) for i in range(n) for j in (2 * i + 1, 2 * i + 2) if j < n]
  out = []
  for layout in (shared, nested, numbered):
    out.append(dict(n=n, edges=chain, main=[0], layout=layout, roots=1, all_alias=False))
    out.append(dict(n=n, edges=star, main=[0], layout=layout, roots=1, all_alias=True))
    out.append(dict(n=n, edges=tree, main=[0, 5], layout=layout, roots=2, all_alias=False))
    out.append(dict(n=n, edges=[], main=list(range(n)), layout=layout, roots=1, all_alias=True))
    out.append(dict(n=n, edges=chain[::2], main=list(range(0, n, 2)), layout=layout, roots=1, all_alias=False))
  return out


def module_text(g, i):
  lines = []
  imports = [j for a, j in g['edges'] if a == i]
  for j in imports:
    lines.append('import %s.Pub as In%d;' % (g['layout'][j].replace('/', '.'), j))
  lines.append('Priv(%d); Priv(%d);' % (10 * (i + 1), 10 * (i + 1) + 1))
  lines.append('Pub(x) :- Priv(x);')
  for j in imports:
    lines.append('Pub(x + %d) :- In%d(x);' % (100 * (i + 1), j))
  # a private predicate defined by multi-body aggregation and a private function used nested in itself: the same names
  # exist in every module and in the main file
  lines.append('Agg(s? += x) distinct :- Priv(x);')
  lines.append('Agg(s? += 1) distinct :- Priv(x), x > 0;')
  lines.append('Inc(x) = x + %d;' % (i + 1))
  lines.append('Pub(Inc(Inc(s)) + 5000) :- Agg(s:);')
  # two private predicates of which one is already spelled like the other one with this file's prefix (Own and M1_Own in m1.l)
  cap = g['layout'][i].split('/')[-1]; cap = cap[0].upper() + cap[1:]
  lines.append('Own(%d); %s_Own(%d);' % (7000 + 10 * i, cap, 8000 + 10 * i))
  lines.append('Pub(x + 1) :- Own(x);')
  lines.append('Pub(x + 2) :- %s_Own(x);' % cap)
  return '\n'.join(lines) + '\n'


def main_text(g, extra=''):
  lines = ['@Engine("sqlite");']
  names = []
  for k, i in enumerate(g['main']):
    path = g['layout'][i].replace('/', '.')
    if k == 0 and not g['all_alias']:
      lines.append('import %s.Pub;' % path); names.append('Pub')
    else:
      lines.append('import %s.Pub as P%d;' % (path, i)); names.append('P%d' % i)
  lines.append('Priv(1);')     # the main file has a private predicate of the same name
  lines.append('Agg(s? += x) distinct :- Priv(x);')
  lines.append('Agg(s? += 7) distinct :- Priv(x);')
  lines.append('Inc(x) = x + 1000;')
  lines.append('V(Inc(Inc(s))) :- Agg(s:);')
  lines.append('T(x) :- %s;' % ' | '.join('%s(x)' % nm for nm in names + ['Priv']))
  lines.append('U(x, y) :- %s(x), Priv(y);' % names[0])
  return '\n'.join(lines) + '\n' + extra


def flattened(g):
  """the single-file program with every module's predicates given unique names"""
  rules = []
  for i in range(g['n']):
    rules += [R('M%d_Priv' % i, N(10 * (i + 1))), R('M%d_Priv' % i, N(10 * (i + 1) + 1)), R('M%d_Pub' % i, x, body=(Lit('M%d_Priv' % i, x),))]
    for a, j in g['edges']:
      if a == i: rules.append(R('M%d_Pub' % i, Bin('+', x, N(100 * (i + 1))), body=(Lit('M%d_Pub' % j, x),)))
    s_ = V('s')
    rules += [R('M%d_Agg' % i, named={'s': lang.Aggr('Sum', x)}, body=(Lit('M%d_Priv' % i, x),), distinct=True),
              R('M%d_Agg' % i, named={'s': lang.Aggr('Sum', N(1))}, body=(Lit('M%d_Priv' % i, x), lang.Cmp('>', x, N(0))), distinct=True),
              R('M%d_Inc' % i, x, value=Bin('+', x, N(i + 1))),
              R('M%d_Pub' % i, Bin('+', lang.Call('M%d_Inc' % i, lang.Call('M%d_Inc' % i, s_)), N(5000)), body=(Lit('M%d_Agg' % i, s=s_),))]
    rules += [R('M%d_Own' % i, N(7000 + 10 * i)), R('M%d_OwnPrefixed' % i, N(8000 + 10 * i)),
              R('M%d_Pub' % i, Bin('+', x, N(1)), body=(Lit('M%d_Own' % i, x),)), R('M%d_Pub' % i, Bin('+', x, N(2)), body=(Lit('M%d_OwnPrefixed' % i, x),))]
  s_ = V('s')
  rules += [R('Agg', named={'s': lang.Aggr('Sum', x)}, body=(Lit('Priv', x),), distinct=True), R('Agg', named={'s': lang.Aggr('Sum', N(7))}, body=(Lit('Priv', x),), distinct=True),
            R('Inc', x, value=Bin('+', x, N(1000))), R('V', lang.Call('Inc', lang.Call('Inc', s_)), body=(Lit('Agg', s=s_),))]
  rules.append(R('Priv', N(1)))
  names = ['M%d_Pub' % i for i in g['main']] + ['Priv']
  rules.append(R('T', x, body=(('or', tuple((Lit(nm, x),) for nm in names)),)))
  rules.append(R('U', x, V('y'), body=(Lit('M%d_Pub' % g['main'][0], x), Lit('Priv', V('y')))))
  return rules


def write_tree(g, base):
  roots = [os.path.join(base, 'rootA'), os.path.join(base, 'rootB')]
  for r in roots: os.makedirs(r, exist_ok=True)
  for i in range(g['n']):
    root = roots[i % 2] if g['roots'] == 2 else roots[0]
    p = os.path.join(root, g['layout'][i] + '.l'); os.makedirs(os.path.dirname(p), exist_ok=True)
    open(p, 'w').write(module_text(g, i))
    if g['roots'] == 2 and root == roots[0]:
      # a decoy of the same module path under the second root: the first root that has the file wins
      q = os.path.join(roots[1], g['layout'][i] + '.l'); os.makedirs(os.path.dirname(q), exist_ok=True)
      open(q, 'w').write('Priv(%d);\nPub(x) :- Priv(x);\n' % (900 + i))
  return roots[0] if g['roots'] == 1 else roots


def canon_split(parsed, main_count_hint=None):
  rules = parsed['rule']
  return json.dumps(parsers.strip_heritage(rules), sort_keys=True, default=str)


def rule_heads(parsed):
  return sorted(r['head']['predicate_name'] for r in parsed['rule'])


def run_graph(g, tmp, stats, bad, states):
  base = tempfile.mkdtemp(dir=tmp)
  try:
    root = write_tree(g, base)
    text = main_text(g)
    outs = {}
    for mode in ('PY', 'CPP'):
      o = parsers.parse_with(mode, text, import_root=root); stats['parses'] += 1
      outs[mode] = o
      if o[0] != 'ok':
        shared = len({p.split('/')[-1] for p in g['layout']}) < g['n']
        bad('valid-import-graph-rejected/%s%s' % (mode.lower(), ('/shared-base-name:' + ','.join(g['layout'])) if shared else ''), '%s parser: %s' % (mode, o[1:3]), g, text)
        continue
      parsed = o[2]
      states.add(tuple(sorted(set(r['head']['predicate_name'].rsplit('_', 1)[0] for r in parsed['rule'] if '_' in r['head']['predicate_name']))))
      # rows through the real pipeline
      u = impl.M('compiler.universe')
      for pred in ('T', 'U', 'V'):
        try:
          prog = impl.quiet(u.LogicaProgram, parsed['rule'])
          impl.quiet(prog.FormattedPredicateSql, pred)
          ex = prog.execution
          db = impl.Db({}); got = db.run(('script', ex.preamble, list(ex.defines_and_exports), ex.main_predicate_sql, '', ex)); db.close()
        except BaseException as e:
          bad('compile-failed/%s' % mode.lower(), '%s: %s %s' % (pred, type(e).__name__, str(e)[:150]), g, text); continue
        stats['executions'] += 1; stats['comparisons'] += 1
        ev = refsem.Evaluator(flattened(g), {})
        exp = ev.rows(pred)
        if got[0] != 'rows': bad('sql-error/%s' % mode.lower(), got[1], g, text); continue
        diff = compare.compare_rows(exp[0], exp[1], got[1], got[2])
        if diff: bad('differs-from-flattened-program/%s' % mode.lower(), '%s: %s' % (pred, diff), g, text)
      # a file reachable along several paths is included once: every module's private fact rules appear exactly twice (its two facts)
      heads = rule_heads(parsed)
      stats['comparisons'] += 1
      from collections import Counter as _C
      hc = _C(h for h in heads if h.endswith('_Priv') or h == 'Priv')
      if sorted(hc.values()) != sorted([2] * g['n'] + [1]):
        bad('rule-count/%s' % mode.lower(), 'private fact rules per module: %s (expected two per module and one for main)' % dict(hc), g, text)
    if outs['PY'][0] == 'ok' and outs['CPP'][0] == 'ok':
      stats['comparisons'] += 1
      a = sorted(json.dumps(parsers.strip_heritage(r), sort_keys=True, default=str) for r in outs['PY'][2]['rule'])
      b = sorted(json.dumps(parsers.strip_heritage(r), sort_keys=True, default=str) for r in outs['CPP'][2]['rule'])
      if a != b: bad('parsers-build-different-rules', 'rule sets differ between the parsers', g, text)
  finally:
    shutil.rmtree(base, ignore_errors=True)


NEGATIVE = [
  ('cycle-2', {'m1.l': 'import m2.Pub as In;\nPub(x) :- In(x);\n', 'm2.l': 'import m1.Pub as In;\nPub(x) :- In(x);\nPub(1);\n'}, 'import m1.Pub;\nT(x) :- Pub(x);\n'),
  ('cycle-3', {'m1.l': 'import m2.Pub as In;\nPub(x) :- In(x);\n', 'm2.l': 'import d.m3.Pub as In;\nPub(x) :- In(x);\n', 'd/m3.l': 'import m1.Pub as In;\nPub(x) :- In(x);\nPub(1);\n'}, 'import m1.Pub;\nT(x) :- Pub(x);\n'),
  ('self-cycle', {'m1.l': 'import m1.Pub as In;\nPub(x) :- In(x);\nPub(1);\n'}, 'import m1.Pub;\nT(x) :- Pub(x);\n'),
  ('undefined-predicate', {'m1.l': 'Pub(1);\n'}, 'import m1.Nope;\nT(x) :- Nope(x);\n'),
  ('undefined-predicate-in-module', {'m1.l': 'import m2.Nope as In;\nPub(x) :- In(x);\n', 'm2.l': 'Pub(1);\n'}, 'import m1.Pub;\nT(x) :- Pub(x);\n'),
  ('unused-import', {'m1.l': 'Pub(1);\n'}, 'import m1.Pub;\nT(1);\n'),
  ('unused-import-in-module', {'m1.l': 'import m2.Pub as In;\nPub(1);\n', 'm2.l': 'Pub(2);\n'}, 'import m1.Pub;\nT(x) :- Pub(x);\n'),
  ('redefinition-of-imported', {'m1.l': 'Pub(1);\n'}, 'import m1.Pub;\nPub(2);\nT(x) :- Pub(x);\n'),
  ('redefinition-of-alias', {'m1.l': 'Pub(1);\n'}, 'import m1.Pub as Q;\nQ(2);\nT(x) :- Q(x);\n'),
  ('unused-import-after-a-used-one', {'m1.l': 'Pub(1);\n', 'm2.l': 'Pub(2);\n'}, 'import m1.Pub;\nimport m2.Pub as Q;\nT(x) :- Pub(x);\n'),
  ('unused-import-after-a-used-one-in-module', {'m1.l': 'import m2.Pub as In;\nimport m3.Pub as In3;\nPub(x) :- In(x);\n', 'm2.l': 'Pub(2);\n', 'm3.l': 'Pub(3);\n'}, 'import m1.Pub;\nT(x) :- Pub(x);\n'),
  ('redefinition-in-module-after-a-used-import', {'m1.l': 'import m2.Pub as In;\nimport m3.Pub as In3;\nPub(x) :- In(x);\nIn3(5);\n', 'm2.l': 'Pub(2);\n', 'm3.l': 'Pub(3);\n'}, 'import m1.Pub;\nT(x) :- Pub(x);\n'),
  ('undefined-import-after-a-used-one', {'m1.l': 'Pub(1);\n', 'm2.l': 'Pub(2);\n'}, 'import m1.Pub;\nimport m2.Nope as Q;\nT(x) :- Pub(x) | Q(x);\n'),
  # redefinition of a predicate imported from the 2nd / 3rd / 5th module of the main file, by fact and by rule, used and through an alias
  ('redefinition-of-second-import', {'m1.l': 'Pub(1);\n', 'm2.l': 'Other(2);\n'}, 'import m1.Pub;\nimport m2.Other;\nOther(5);\nT(x) :- Pub(x) | Other(x);\n'),
  ('redefinition-of-third-import-by-rule', {'m1.l': 'Pub(1);\n', 'm2.l': 'Other(2);\n', 'd/m3.l': 'Third(3);\n'}, 'import m1.Pub;\nimport m2.Other;\nimport d.m3.Third;\nThird(x) :- Pub(x);\nT(x) :- Pub(x) | Other(x) | Third(x);\n'),
  ('redefinition-of-second-alias', {'m1.l': 'Pub(1);\n', 'd/m1.l': 'Pub(2);\n'}, 'import m1.Pub;\nimport d.m1.Pub as Q;\nQ(7);\nT(x) :- Pub(x) | Q(x);\n'),
  ('redefinition-of-fifth-import', dict([('m%d.l' % i, 'P%d(%d);\n' % (i, i)) for i in range(1, 6)]), ''.join('import m%d.P%d;\n' % (i, i) for i in range(1, 6)) + 'P5(9);\nT(x) :- P1(x) | P2(x) | P3(x) | P4(x) | P5(x);\n'),
  ('redefinition-of-import-reached-twice', {'m1.l': 'import m2.Other as In;\nPub(x) :- In(x);\n', 'm2.l': 'Other(2);\n'}, 'import m1.Pub;\nimport m2.Other;\nOther(5);\nT(x) :- Pub(x) | Other(x);\n'),
  ('redefinition-in-module-of-its-second-import', {'m1.l': 'import m2.Other as In;\nimport m3.Third as In3;\nPub(x) :- In(x) | In3(x);\nIn3(5);\n', 'm2.l': 'Other(2);\n', 'm3.l': 'Third(3);\n'}, 'import m1.Pub;\nT(x) :- Pub(x);\n'),
  ('module-named-main', {'main.l': 'Pub(1);\n'}, 'import main.Pub;\nT(x) :- Pub(x);\n'),
  ('module-named-main-imported-by-module', {'main.l': 'Pub(1);\n', 'm1.l': 'import main.Pub as In;\nPub(x) :- In(x);\n'}, 'import m1.Pub;\nT(x) :- Pub(x);\n'),
  ('missing-file', {'m1.l': 'Pub(1);\n'}, 'import m9.Pub;\nT(x) :- Pub(x);\n'),
  ('private-of-module-not-visible', {'m1.l': 'Priv(1);\nPub(x) :- Priv(x);\n'}, 'import m1.Pub;\nT(x) :- Pub(x), M1_Hidden(x);\n'),
]


def run_negative(name, files, main, tmp, stats, bad):
  base = tempfile.mkdtemp(dir=tmp)
  try:
    for rel, content in files.items():
      p = os.path.join(base, rel); os.makedirs(os.path.dirname(p), exist_ok=True); open(p, 'w').write(content)
    text = '@Engine("sqlite");\n' + main
    for mode in ('PY', 'CPP'):
      o = parsers.parse_with(mode, text, import_root=base); stats['parses'] += 1; stats['comparisons'] += 1
      if name == 'private-of-module-not-visible':
        continue   # parses; the undefined M1_Hidden is a table reference - only used as a control
      if o[0] != 'reject':
        bad('invalid-import-accepted/%s/%s' % (name, mode.lower()), '%s parser: %s' % (mode, 'accepts' if o[0] == 'ok' else o[1:3]), dict(negative=name), text)
  finally:
    shutil.rmtree(base, ignore_errors=True)


def plan(ctx):
  impl.setup(ctx.repo); parsers.setup_cpp()
  gs = list(graphs(4 if ctx.thorough else 3))
  if ctx.thorough: gs = [g for g in gs if g['n'] < 4 or (g['roots'] == 1 and not g['all_alias'])]
  if not ctx.thorough:
    gs = [g for g in gs if g['n'] <= 2 or (not g['all_alias'] and g['roots'] == 1) or g['layout'] == LAYOUTS[3][2]]
  gs += wide_graphs()
  tasks = [('graphs', sh) for sh in explore.shards(gs, 96)]
  tasks.append(('negative',))
  return tasks


def work(task):
  stats = dict(parses=0, executions=0, comparisons=0, graphs=0, negative=0); viol = []; states = set(); samples = []
  tmp = tempfile.mkdtemp(prefix='verif_c12_')
  def bad(sig, what, g, text):
    viol.append(dict(sig=sig, what='%s | graph=%s | main=%r' % (what, g, text[:200]), case=dict(graph=g, text=text)))
  try:
    if task[0] == 'graphs':
      for g in task[1]:
        stats['graphs'] += 1
        run_graph(g, tmp, stats, bad, states)
      if task[1]: samples.append(dict(graph=task[1][0], main=main_text(task[1][0]), module0=module_text(task[1][0], 0)))
    else:
      for name, files, main in NEGATIVE:
        stats['negative'] += 1
        run_negative(name, files, main, tmp, stats, bad)
  finally:
    shutil.rmtree(tmp, ignore_errors=True)
  by = {}
  for v in viol: by.setdefault(v['sig'], []).append(v)
  out = []
  for s, vs in by.items():
    vs.sort(key=lambda v: len(json.dumps(v['case']))); out.extend(vs[:2]); stats['viol_' + s] = len(vs)
  return dict(stats=stats, viol=out, samples=samples[:1], keys=dict(states=states))


def coverage(ctx, merged):
  s = merged['stats']
  return dict(
    states=s.get('graphs', 0) + s.get('negative', 0), transitions=s.get('parses', 0) + s.get('executions', 0), traces_validated_against_impl=s.get('comparisons', 0),
    samples=merged['samples'], exhaustive=True, evaluations=s.get('parses', 0), distinct_nontrivial=len(merged['keys'].get('states', ())),
    rule='state = one import graph (modules, import edges, main imports, directory layout, roots, alias choice) written to a scratch tree; transition = one parse / one execution; distinct_nontrivial = distinct sets of predicate prefixes allocated by the parsers',
    import_graphs=s.get('graphs', 0), negative_graphs=s.get('negative', 0), distinct_prefix_allocations=len(merged['keys'].get('states', ())),
    bounds=dict(modules=4 if ctx.thorough else 3, layouts={k: list(v) for k, v in LAYOUTS.items()}, roots=[1, 2], parsers=['PY', 'CPP']), cap_hit=False)


def replay(ctx, case):
  impl.setup(ctx.repo); parsers.setup_cpp()
  g = case['graph']
  if 'negative' in g:
    r = work(('negative',))
  else:
    g['layout'] = tuple(g['layout']); g['edges'] = [tuple(e) for e in g['edges']]
    r = work(('graphs', [g]))
  return r['viol']


LEVEL_TEXT = ('Every import graph on a main file and up to three modules (all DAGs in which every module is reachable, every non-empty set of main imports) x directory layouts (flat, nested, two and three '
              'files sharing a base name in different directories) x one or two import roots x alias choices is written to a scratch tree and parsed by both parsers; the parsed rules are compiled and '
              'executed on SQLite and must equal the flattened single-file program (unique names per module) evaluated by the reference model; rule counts show a file reachable along several paths is '
              'included once; the two parsers must build the same rule sets. Eleven negative trees (cycles, undefined / unused imports, redefinition, missing file) must raise ParsingException.')
LEVEL_NOTE = 'Trusted: reference evaluator, the module generator. Bounded: <=3 modules (thorough 4) exhaustively, 15 fixed graphs of 12 modules (chain, star, tree, all-imported; one shared base name, nested, numbered), fixed module bodies, listed layouts.'
