"""C09 - every dialect compiles the core language into well-scoped SQL."""
import re
from .. import impl, explore, semcheck, families, sqllex, lang
from ..semcheck import Case
from ..lang import Program

PID = 'C09'
LEVEL = 'model_checking'
TECHNIQUE = 'exhaustive compilation of the generated typed program families for all eight dialects; outcome class, per-dialect lexing, bracket balance, placeholder-leak patterns and an alias/WITH scoper on every emitted statement; scoper calibrated against SQLite preparing the statement'
ASSUMPTIONS = ['engines other than SQLite are not executed; structural well-formedness is checked on the text with lexical rules from documentation',
               'the scoper understands the regular shape the compiler emits (WITH, SELECT..FROM item AS alias, UNION ALL, parenthesised sub-queries, UNNEST/JSON_EACH/arrayJoin .. as alias)']

_CASES = None


def base_cases(thorough):
  step = 1 if thorough else 4
  out = []
  for gen in (families.c01_cases(False), families.c02_cases(False)):
    by = {}
    for c in gen: by.setdefault(c.family, []).append(c)
    for fam, cs in by.items(): out += [c for c in cs[::(step if fam not in ('EXPR', 'FUNC') else 1)] if 'main.' not in c.text()]      # schema-qualified names are tables of a database; C09 runs programs in fact form
  for i, c in enumerate(families.c04_cases(False)):
    if i % (60 if not thorough else 15) == 0: out.append(c)
  for c in families.c08_cases(False):
    if sum(c.info['assign']) % (3 if not thorough else 1) == 0 or c.info['shape'] in ('two_with_chains_under_ground', 'grouped_constant', 'wide_named_columns'): out.append(c)
  for c in families.c03_cases(False):
    if c.info['depth'] in (2, 21): out.append(c)
  # record fields named like keys of the compiler's own syntax tree
  from ..lang import R, Lit, V, Eq
  x, r_ = V('x'), V('r')
  for n in ('variable', 'literal', 'call', 'record', 'expression', 'type', 'the_string', 'subscript', 'field_value', 'predicate_name', 'var_name', 'combine', 'value', 'field', 'number'):
    out.append(semcheck.Case('FIELDNAMES', Program([R('T', ('fld', r_, n), body=(Lit('B', x), Eq(r_, ('rec', ((n, x),))))), R('U', ('rec', ((n, x), ('k', x))), body=(Lit('B', x),)),
                                                    R('W', V('y'), body=(Lit('U', r_), Eq(V('y'), ('fld', r_, n))))]), ['T', 'W'], info=dict(field=n)))
  # chains of flags: each default refers to a flag defined before it; the last one is used inside a string and through FlagValue
  from ..lang import Ann, Call, S as Str_
  flags3 = [Ann('@DefineFlag("env", "prod");'), Ann('@DefineFlag("dataset", "${env}_data");'), Ann('@DefineFlag("table", "${dataset}.events");'), Ann('@DefineFlag("full", "db.${table}");')]
  out.append(semcheck.Case('FLAGS', Program(flags3 + [R('T', x, Str_('${full}'), Call('FlagValue', Str_('table')), body=(Lit('B', x),))]), ['T'], info=dict(field='flags')))
  out.append(semcheck.Case('FLAGS', Program(flags3[::-1] + [R('T', x, Str_('x ${table} y ${env}'), body=(Lit('B', x),))]), ['T'], info=dict(field='flags')))
  return out


def cases(thorough):
  global _CASES
  if _CASES is None or _CASES[0] != thorough:
    _CASES = (thorough, base_cases(thorough))
  return _CASES[1]


def plan(ctx):
  n = len(cases(ctx.thorough))
  nsh = min(n, 160)
  return [('dia', ctx.thorough, i, nsh) for i in range(nsh)]


FACTS = {'ABS': {'A': [(1, 2), (2, 1), (2, 2)], 'B': [(1,), (2,)], 'S': [('a',), ('b',)]}, 'AB': {'A': [(1, 2), (2, 1), (2, 2)], 'B': [(1,), (2,)]}, 'U4': {'A1': [(1,), (2,)], 'B1': [(2,), (3,)], 'C1': [(3,), (3,)], 'D1x': [(3,), (1,)]}, 'E': {'E': [(1, 2), (2, 3), (3, 1)]}}


def check_sql(dialect, sql, stats, bad, text, pred):
  try:
    toks = sqllex.lex(sql, dialect)
  except sqllex.LexError as e:
    bad('sql-does-not-lex/%s' % dialect, '%s' % e, text, pred, sql); return None
  stats['statements'] += 1
  br = sqllex.check_brackets(toks)
  if br: bad('sql-brackets/%s' % dialect, br, text, pred, sql)
  lk = sqllex.leaks(sql, toks)
  if lk: bad('placeholder-leak/%s/%s' % (dialect, lk[0][:20]), 'compiler-internal placeholder %r in the SQL' % lk, text, pred, sql)
  sc = sqllex.scope_check(toks)
  if sc: bad('not-well-scoped/%s' % dialect, '; '.join(sc[:3]), text, pred, sql)
  return not (br or sc)


def work(task):
  _, thorough, shard, nsh = task
  impl.accelerate_library_parse()
  cs = cases(thorough)
  stats = dict(programs=0, compiles=0, statements=0, diagnostics=0, comparisons=0, calibrations=0); viol = []; samples = []; outcomes = set()
  def bad(sig, what, text, pred, sql=None):
    viol.append(dict(sig=sig, what='%s | %s | pred=%s%s' % (what, semcheck.oneline(text)[:220], pred, (' | sql: ' + ' '.join(sql.split())[:300]) if sql else ''), case=dict(text=text, pred=pred)))
  for i in range(shard, len(cs), nsh):
    c = cs[i]
    facts = semcheck.facts_for(FACTS[c.schema], c.schema)
    for dialect in sqllex.DIALECTS:
      prog = Program(facts + c.program.stmts, engine=dialect)
      text = prog.text()
      comp = impl.Compiled(text); stats['compiles'] += 1; stats['programs'] += 1
      for pred in c.preds:
        out = comp.sql(pred); stats['comparisons'] += 1
        outcomes.add((dialect, out[0], out[1] if out[0] != 'script' else ''))
        if out[0] == 'diag': stats['diagnostics'] += 1; continue
        if out[0] != 'script':
          sig = 'internal-error/%s/%s' % (dialect, out[1])
          if c.family == 'FIELDNAMES' and c.info['field'] == 'variable' and out[1] == 'TypeError' and dialect in ('psql', 'duckdb', 'clickhouse'): sig = 'F45-record-field-named-variable/%s' % dialect
          bad(sig, 'compilation failed with %s: %s' % (out[1], out[2][:160]), text, pred); continue
        ok = True
        if c.family == 'FLAGS' and '${' in out[4]:
          bad('flag-placeholder-left-in-sql/%s' % dialect, 'every flag is defined, yet a ${...} placeholder survives in the emitted SQL', text, pred, out[4])
        for stmt in [out[1]] + out[2] + [out[3]]:
          if stmt and stmt.strip():
            r = check_sql(dialect, stmt, stats, bad, text, pred)
            ok = ok and bool(r)
        if dialect == 'sqlite':
          # calibration of the static oracle: its verdict must coincide with SQLite actually preparing the statements
          db = impl.Db({}); got = db.run(out); db.close(); stats['calibrations'] += 1
          runs = got[0] == 'rows'
          if runs != ok:
            bad('scoper-disagrees-with-sqlite', 'static verdict %s but SQLite %s' % ('ok' if ok else 'problem', 'runs it' if runs else got[1]), text, pred, out[4])
    if len(samples) < 1: samples.append(dict(program=c.text(), dialects=sqllex.DIALECTS))
  by = {}
  for v in viol: by.setdefault(v['sig'], []).append(v)
  outv = []
  for s, vs in by.items():
    vs.sort(key=lambda v: len(v['what'])); outv.extend(vs[:2]); stats['viol_' + s] = len(vs)
  return dict(stats=stats, viol=outv, samples=samples, keys=dict(outcomes=outcomes))


def coverage(ctx, merged):
  s = merged['stats']
  return dict(
    states=s.get('programs', 0), transitions=s.get('compiles', 0), traces_validated_against_impl=s.get('statements', 0) + s.get('calibrations', 0),
    samples=merged['samples'], exhaustive=True, evaluations=s.get('comparisons', 0), distinct_nontrivial=len(merged['keys'].get('outcomes', ())),
    rule='state = one (program, dialect); transition = one compilation; every emitted statement is lexed, bracket-checked, leak-checked and scope-checked; distinct_nontrivial = distinct (dialect, outcome class) pairs',
    statements_checked=s.get('statements', 0), diagnostics=s.get('diagnostics', 0), sqlite_calibrations=s.get('calibrations', 0), dialects=sqllex.DIALECTS, cap_hit=False,
    bounds=dict(base='every 4th (thorough: every) program of the C01/C02 families, a stratified set of functor / plan-annotation / recursion programs, in fact form'))


def replay(ctx, case):
  impl.accelerate_library_parse()
  stats = dict(statements=0); viol = []
  def bad(sig, what, text, pred, sql=None): viol.append(dict(sig=sig, what=what, case=case))
  m = re.search(r'@Engine\("(\w+)"', case['text']); dialect = m.group(1)
  out = impl.compile_pred(case['text'], case['pred'])
  if out[0] == 'script':
    for stmt in [out[1]] + out[2] + [out[3]]:
      if stmt and stmt.strip(): check_sql(dialect, stmt, stats, bad, case['text'], case['pred'])
  elif out[0] != 'diag':
    viol.append(dict(sig='internal-error/%s/%s' % (dialect, out[1]), what=out[2][:200], case=case))
  return viol


LEVEL_TEXT = ('Every fourth (thorough: every) program of the C01/C02 families plus stratified functor, plan-annotation and recursion programs, written in fact form so that every dialect can type them, is '
              'compiled for sqlite, duckdb, psql, bigquery, trino, presto, clickhouse and databricks with each dialect\'s default settings. Every outcome must be SQL or one of the four diagnostic classes; '
              'every emitted statement is lexed with that dialect\'s rules (strings terminate), brackets must balance, no compiler-internal placeholder may appear outside literals, every alias.column must '
              'resolve to an alias of an enclosing FROM, WITH tables must be defined before use. On SQLite the static verdict is calibrated against actually running the statement.')
LEVEL_NOTE = 'Trusted: mc/sqllex.py (lexical rules, scoper), calibrated on SQLite only. Bounded: as the underlying families.'
