"""C08 - plan-selecting annotations never change results."""
import base64, pickle, hashlib
from .. import impl, explore, semcheck, families, refsem
from . import c01

PID = 'C08'
LEVEL = 'model_checking'
TECHNIQUE = 'bounded-exhaustive enumeration of every assignment of {none,@NoInject,@With,@NoWith,@Ground} to the intermediate predicates of generated programs; rows vs reference evaluator on all small databases; distinct emitted plans counted'
ASSUMPTIONS = ['@Ground tables are materialised in the in-memory logica_test database of one SQLite connection, as `logica.py run` does']

_CASES = None


def cases(thorough):
  global _CASES
  if _CASES is None or _CASES[0] != thorough:
    _CASES = (thorough, list(families.c08_cases(thorough)))
  return _CASES[1]


def plan(ctx):
  n = len(cases(ctx.thorough))
  nsh = min(n, 128)
  return [('plan', ctx.thorough, i, nsh) for i in range(nsh)]


def work(task):
  _, thorough, shard, nsh = task
  cs = cases(thorough)
  h = semcheck.Harness()
  plans = set()
  for i in range(shard, len(cs), nsh):
    c = cs[i]
    h.run_case(c, None, prepared_rules=getattr(c, 'prepared', None))
    out = impl.compile_pred(c.text(), 'T')
    if out[0] == 'script':
      plans.add((c.info['shape'], hashlib.sha1((out[1] + '\n'.join(out[2]) + out[3]).encode()).hexdigest()[:12]))
  res = h.result(); h.close()
  res['keys']['plans'] = plans
  for v in res['viol']:
    v['case']['pickle'] = base64.b64encode(pickle.dumps(c01.find(cs, v['case']['text']))).decode()
  return res


def coverage(ctx, merged):
  cov = c01.coverage(ctx, merged)
  cov['distinct_plans'] = len(merged['keys'].get('plans', ()))
  cov['bounds'] = dict(shapes=len(families.c08_shapes(ctx.thorough)), annotations=['none', '@NoInject', '@With', '@NoWith', '@Ground', '@NoInject+@NoWith', '@NoInject+@With', '@Ground overwrite: false'], intermediates='<=3 (5^k assignments each)')
  return cov


def replay(ctx, case):
  c = pickle.loads(base64.b64decode(case['pickle']))
  h = semcheck.Harness()
  if 'db' in case: c.dbs = [case['db']]; c.fact_dbs = []
  h.run_case(c, None, prepared_rules=getattr(c, 'prepared', None))
  r = h.result(); h.close()
  return r['viol']


LEVEL_TEXT = ('For 8 (thorough 10) program shapes with 1-3 intermediate predicates (chain, diamond, used twice, inside combine and negation, aggregating, two rules, recursive consumer, '
              'functional) EVERY assignment of {none, @NoInject, @With, @NoWith, @Ground} to the intermediates is compiled; the final predicate and every intermediate are executed '
              '(scripts incl. CREATE TABLE for @Ground) on all 90 small databases and compared with the reference evaluator, which ignores the annotations; the number of distinct emitted '
              'plans is reported to show the annotations really changed the SQL. Calls of injectible-only predicates are covered by the INJ family of C01.')
LEVEL_NOTE = 'Trusted: reference evaluator. Bounded: <=3 intermediates, 5 annotation choices each.'
