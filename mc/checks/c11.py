"""C11 - documented shorthand forms mean the same as their long forms."""
from .. import impl, explore, semcheck, families, refsem, sugar, functor_model, lang
from ..semcheck import Case
from ..lang import R, Rule, Lit, V, N, Bin, Cmp, Eq, Not, Comb, Aggr, Program
from . import c01, c02, c07

PID = 'C11'
LEVEL = 'model_checking'
TECHNIQUE = 'exhaustive occurrence-wise rewriting of every documented shorthand into its long form (and back) in the generated program families; each rewritten program executed on SQLite and compared with the reference result of the original'
ASSUMPTIONS = ['one occurrence is rewritten at a time; positional/colN in heads is rewritten for all rules of a predicate together']

_CASES = None


def named_family():
  """programs exercising `a:` = `a: a` and named arguments (the other families use positional arguments)"""
  x, y, p, q = V('x'), V('y'), V('p'), V('q')
  out = []
  P = R('P', named={'p': x, 'q': y}, body=(Lit('A', x, y),))
  for short in (True, False):
    def arg(name): return ((('short', name), V(name)) if short else (name, V(name)))
    lit = ('lit', 'P', (arg('p'), arg('q')))
    out.append(('a:=a:a', Program([P, R('T', p, q, body=(lit,))])))
    out.append(('a:=a:a', Program([P, R('T', p, body=(('lit', 'P', (arg('p'),)), Lit('B', p)))])))
    out.append(('a:=a:a', Program([P, R('T', q, named={'n': Aggr('Count', p)}, body=(lit,), distinct=True)])))
    out.append(('a:=a:a', Program([P, R('T', p, body=(Lit('B', p), Not(('lit', 'P', (arg('p'), arg('q'))))))])))
    out.append(('a:=a:a', Program([P, R('T', p, V('s'), body=(Lit('B', p), Eq(V('s'), Comb('Sum', q, (lit,)))))])))
    # record construction shorthand {p:, q:} and head shorthand
    out.append(('a:=a:a', Program([Rule('Q', (arg('p'), arg('q')), (Lit('A', p, q),)), R('T', x, y, body=(Lit('Q', p=x, q=y),))])))
    out.append(('a:=a:a', Program([R('T', ('rec', (arg('p'), arg('q'))), body=(Lit('A', p, q),))])))
  return out


def base_cases(thorough):
  step = 1 if thorough else 3
  out = []
  for gen, st in ((families.c01_cases(False), step), (families.c02_cases(False), step)):
    by = {}
    for c in gen:
      if c.family in families.FINDING_FAMILIES: continue      # recorded under the property of their own check (findings F44, F46)
      by.setdefault(c.family, []).append(c)
    for fam, cs in by.items(): out += cs[::(1 if fam in ('EQFORMS', 'MIX') else st)]
  for kind, prog in named_family():
    out.append(Case('NAMED', prog, ['T'], dbs=semcheck.dbs_ab(2), fact_dbs=semcheck.FACT_DBS_AB[:1], info=dict(named=True)))
  return out


def cases(thorough):
  global _CASES
  if _CASES is None or _CASES[0] != thorough:
    _CASES = (thorough, base_cases(thorough))
  return _CASES[1]


def plan(ctx):
  n = len(cases(ctx.thorough))
  nsh = min(n, 160)
  return [('sugar', ctx.thorough, i, nsh) for i in range(nsh)]


def work(task):
  _, thorough, shard, nsh = task
  cs = cases(thorough)
  h = c02.Harness2(); h.stats.update(variants=0, base_programs=0)
  kinds = {}
  for i in range(shard, len(cs), nsh):
    c = cs[i]
    h.stats['base_programs'] += 1
    orig_rules = c.program.rules()
    dbs = (c.dbs or [])[::2]
    if isinstance(c.info, dict) and c.info.get('named'):
      # the two renderings (a: vs a: a) are both generated as base cases; each is compared with the reference
      h.stats['variants'] += 1; kinds['a:=a:a'] = kinds.get('a:=a:a', 0) + 1
      h.run_case(c, c02.classify)
      continue
    for kind, prog in sugar.program_rewrites(c.program):
      h.stats['variants'] += 1; kinds[kind] = kinds.get(kind, 0) + 1
      vc = Case('%s~%s' % (c.family, kind), prog, c.preds, c.schema, dbs=dbs, fact_dbs=(c.fact_dbs or [])[:1], depth=c.depth, info=c.info)
      vc.orig = (orig_rules, {}, {})
      h.run_case(vc, c02.classify)
  res = h.result(); h.close()
  for k, n in kinds.items(): res['stats']['kind_' + k] = n
  return res


def coverage(ctx, merged):
  s = merged['stats']
  cov = c01.coverage(ctx, merged)
  cov.update(base_programs=s.get('base_programs', 0), variants=s.get('variants', 0), equivalences={k[5:]: v for k, v in s.items() if k.startswith('kind_')},
             bounds=dict(base='every 3rd (thorough: every) program of each C01/C02 family + NAMED family', databases='every second database of the family'))
  cov['rule'] = 'state = a program with one occurrence of one shorthand rewritten; transition = one execution; expected rows = reference evaluator on the ORIGINAL program'
  return cov


def replay(ctx, case):
  global _CASES
  for thorough in (False, True):
    for c in cases(thorough):
      for kind, prog in [(None, c.program)] + sugar.program_rewrites(c.program):
        if prog.text() == case['text'] or case['text'].endswith(prog.text().split('\n', 1)[1]):
          _CASES = (thorough, [c])
          return work(('sugar', thorough, 0, 1))['viol']
    _CASES = None
  return []


LEVEL_TEXT = ('Each occurrence of each documented equivalence (positional = colN in literals and heads; a: = a: a; F(x) = v vs logica_value: v; functional call vs extra conjunct; = vs ==; ~P vs '
              'Max{1 :- P} is null; A => B vs ~(A, ~B); the three combine syntaxes; x in [a,b] vs alternatives; several rules vs one rule with |; P(k) Op= e vs logica_value? Op= e distinct) in '
              'every third (thorough: every) program of the C01/C02 families - heads, bodies, nested combines, negations, injected predicates - is rewritten one at a time; the rewritten program '
              'is compiled, executed on the small databases and must return the rows the reference evaluator assigns to the original.')
LEVEL_NOTE = 'Trusted: the rewriting rules in mc/sugar.py (each a direct transcription of the documented equivalence), reference evaluator. Bounded: as the underlying families.'
