"""C10 - string literals and flag values are data, never SQL."""
import itertools, json, re, ast, signal
from .. import impl, explore, sqllex
from ..compare import norm_got
from ..refsem import LV, RV

PID = 'C10'
LEVEL = 'model_checking'
TECHNIQUE = 'exhaustive enumeration of all strings up to a length bound over an alphabet of special characters x positions x literal forms x 8 dialects; SQLite: executed and compared character for character; other dialects: emitted SQL lexed with the dialect rules, token shape compared with a benign string, literal decoded'
ASSUMPTIONS = ['engines other than SQLite are not executed: their lexical rules are transcribed from documentation in mc/sqllex.py',
               'strings containing `${` other than the words ${f} (defined flag) and ${g} (undefined flag) are not generated: the compiler rejects them with a diagnostic (DESIGN 2.4)']

SYMS = ["'", '"', '\\', '\n', '\t', '%', '{', '}', '$', '#', '/*', '*/', '--', ';', 'é', 'a', '|']
WORDS = ['%s', '{0}', '${f}', "''", "\\'", '%(x)s', '{}', '\\n', ' ', "';--", '";', "\\\\'"]
FLAG_F = 'Vf'
POSITIONS = ['fact', 'list', 'record', 'concat', 'flag_default', 'user_flag', 'grounded', 'nested', 'body_eq', 'body_in', 'call_arg', 'concat_tight', 'functor_arg', 'in_left', 'argmax_key', 'sqlexpr_arg']


def strings(maxlen):
  out = ['']
  for n in range(1, maxlen + 1):
    for t in itertools.product(SYMS, repeat=n): out.append(''.join(t))
  out += WORDS
  out += [a + b for a in WORDS for b in WORDS if a != b and '${f}' not in (a, b)][::3]
  out += ['{v}', '{a}', '{y}', '{z}', "'{y}'", '{y}{z}', '{x}', '{0}{1}', '{arg}', '{value}', 'a | b', 'a|', '|', "C:\\Users\\O'Brien\\notes.txt", "don't match \\d+\t."]
  out += ["it's a \"test\" \\ 100% {ok} {0} %s # -- /* */ ;\n\t \u00e9 \\' end", "x" * 300 + "'" + "y" * 300, "'" * 9, '\\' * 7, "a'b\"c'd\"e\\f\ng\th%i{j}k$l#m/*n*/o--p;q", "'; DROP TABLE t; --", '\\\\\'\\\'']
  out += [w + s for w in ('${f}', '%s') for s in ("'", '"', '\\', 'a')] + [s + '${f}' for s in ("'", '"', '\\')]
  seen = set(); res = []
  for s in out:
    if s in seen: continue
    seen.add(s)
    if '${' in s.replace('${f}', ''): continue
    if '"""' in s: continue
    res.append(s)
  return res


def literal_forms(s):
  forms = []
  if '"' not in s and '\n' not in s: forms.append('"%s"' % s)
  sq = "'" + s.replace('\\', '\\\\').replace("'", "\\'").replace('\n', '\\n').replace('\t', '\\t') + "'"
  assert ast.literal_eval(sq) == s
  forms.append(sq)
  if '"""' not in s and not s.endswith('"') and not s.startswith('"'): forms.append('"""%s"""' % s)
  return forms


def expand(s):
  return s.replace('${f}', FLAG_F)


def program(dialect, position, items):
  """items: list of (index, literal text). -> (text, user_flags)"""
  lines = ['@Engine("%s");' % dialect, '@DefineFlag("f", "%s");' % FLAG_F]
  flags = {}
  for i, lit in items:
    if position == 'fact': lines.append('T(%d, %s);' % (i, lit))
    elif position == 'list': lines.append('T(%d, [%s, "z"]);' % (i, lit))
    elif position == 'record': lines.append('T(%d, {fld: %s, n: 1});' % (i, lit))
    elif position == 'concat': lines.append('T(%d, "<" ++ %s ++ ">");' % (i, lit))
    elif position == 'grounded': lines.append('G(%d, %s);' % (i, lit))
    elif position == 'nested': lines.append('T(%d, {a: [{b: %s, c: [%s, "y"]}], n: 2});' % (i, lit, lit))
    elif position == 'body_eq': lines.append('T(%d, s) :- s == %s;' % (i, lit))
    elif position == 'body_in': lines.append('T(%d, s) :- s in ["z", %s];' % (i, lit))
    elif position == 'call_arg': lines.append('T(%d, Idf(%s));' % (i, lit))
    elif position == 'concat_tight': lines.append('T(%d, "<"++%s++">");' % (i, lit))
    elif position == 'functor_arg': lines += ['V%d := Val(Base: %s);' % (i, lit), 'T(%d, V%d());' % (i, i)]
    elif position == 'argmax_key': lines.append('T(%d, s) :- s ArgMax= (%s -> 1);' % (i, lit))
    elif position == 'sqlexpr_arg': lines.append('T(%d, SqlExpr("{x} || {y} || {z}", {x: %s, y: "", z: ""}));' % (i, lit))
    elif position == 'in_left': lines.append('T(%d, s) :- s == %s, %s in ["q", s];' % (i, lit, lit))
    elif position == 'flag_default':
      lines.append('@DefineFlag("fl%d", %s);' % (i, lit)); lines.append('T(%d, FlagValue("fl%d"));' % (i, i))
  if position == 'grounded': lines += ['@Ground(G);', 'T(i, s) :- G(i, s);']
  if position == 'call_arg': lines += ['Idf(x) = x;']
  if position == 'functor_arg': lines += ['Base() = "d";', 'Val() = Base();']
  return '\n'.join(lines) + '\n'


def plan(ctx):
  S = strings(3 if ctx.thorough else 2)
  tasks = []
  B = 20
  chunks = [S[i:i + B] for i in range(0, len(S), B)]
  for d in sqllex.DIALECTS:
    for sh in explore.shards(list(range(len(chunks))), 12 if ctx.thorough else 4):
      tasks.append(('lits', d, ctx.thorough, sh))
  tasks.append(('flags-special',))
  return tasks


def sqlite_value(position, s):
  e = expand(s)
  if position == 'list': return LV([e, 'z'])
  if position == 'record': return RV((('fld', e), ('n', 1)))
  if position in ('concat', 'concat_tight'): return '<' + e + '>'
  if position == 'nested': return RV((('a', LV([RV((('b', e), ('c', LV([e, 'y']))))])), ('n', 2)))
  return e


def classify_sqlite(exp, got):
  """finding 11: multi-line literals are re-indented together with the SQL text"""
  def flat(v):
    if isinstance(v, (LV, tuple)) and not isinstance(v, RV): return [x for y in v for x in flat(y)]
    if isinstance(v, RV): return [x for _, y in v for x in flat(y)]
    return [v]
  fe, fg = flat(exp), flat(got)
  if len(fe) != len(fg): return None
  for a, b in zip(fe, fg):
    if a == b: continue
    if isinstance(a, str) and isinstance(b, str) and '\n' in a and re.sub(r'\n +', '\n', b) == re.sub(r'\n +', '\n', a) and b != a: continue
    return None
  return 'sqlite-multiline-literal-reindented'


def work(task):
  impl.accelerate_library_parse()
  stats = dict(compiles=0, comparisons=0, strings=0, literals=0, executions=0, diagnostics=0); viol = []; samples = []; outcomes = set()
  def bad(sig, what, text, extra=None):
    viol.append(dict(sig=sig, what='%s | %r' % (what, text[:260]), case=dict(text=text, extra=extra)))
  if task[0] == 'flags-special':
    return flags_special(stats, bad, viol)
  _, dialect, thorough, chunk_ids = task
  S = strings(3 if thorough else 2)
  B = 20
  chunks = [S[i:i + B] for i in range(0, len(S), B)]
  ref_cache = {}
  for ci in chunk_ids:
    chunk = chunks[ci]
    for position in POSITIONS:
      # quick tier: the positions added in later rounds see every third chunk of the exhaustive strings and all the hand-picked ones (the last chunks)
      if not thorough and POSITIONS.index(position) >= 7 and ci % 3 != 0 and ci < len(chunks) - 7: continue
      # one program per literal form index (all strings of the chunk that have that form)
      for fi in range(3):
        items = []; meta = []
        for k, s in enumerate(chunk):
          forms = literal_forms(s)
          if fi < len(forms): items.append((k, forms[fi])); meta.append((k, s))
        if not items: continue
        if position == 'user_flag':
          if fi > 0: continue
          text = '@Engine("%s");\n@DefineFlag("f", "%s");\n' % (dialect, FLAG_F) + ''.join('@DefineFlag("fl%d", "d");\nT(%d, FlagValue("fl%d"));\n' % (k, k, k) for k, _ in meta)
          flags = {'fl%d' % k: s for k, s in meta}
        else:
          text = program(dialect, position, items); flags = {}
        stats['compiles'] += 1; stats['strings'] += len(meta); stats['literals'] += len(meta)
        out = impl.Compiled(text, flags=flags).sql('T')
        if out[0] != 'script':
          if out[0] == 'diag':
            # a batch may be rejected because of one member; re-run singly and require each single one to compile
            for (k, lit), (_, s) in zip(items, meta):
              t1 = program(dialect, position, [(k, lit)]) if position != 'user_flag' else '@Engine("%s");\n@DefineFlag("f", "%s");\n@DefineFlag("fl%d", "d");\nT(%d, FlagValue("fl%d"));\n' % (dialect, FLAG_F, k, k, k)
              o1 = impl.Compiled(t1, flags={'fl%d' % k: s} if position == 'user_flag' else {}).sql('T'); stats['compiles'] += 1
              if o1[0] != 'script':
                stats['diagnostics'] += 1
                bad('string-rejected/%s/%s/%s' % (dialect, position, o1[1]), 'literal %r (%s) rejected: %s' % (s, lit, o1[2][:120]), t1)
              else:
                check_one(dialect, position, [(k, s)], o1, t1, stats, bad, outcomes, ref_cache)
            continue
          bad('internal-error/%s/%s/%s' % (dialect, position, out[1]), 'compilation failed with %s: %s' % (out[1], out[2][:150]), text); continue
        check_one(dialect, position, meta, out, text, stats, bad, outcomes, ref_cache)
        if not samples and position == 'record' and dialect == 'bigquery': samples.append(dict(dialect=dialect, position=position, program=text[:400]))
  by = {}
  for v in viol: by.setdefault(v['sig'], []).append(v)
  outv = []
  for s, vs in by.items():
    vs.sort(key=lambda v: len(v['case']['text'])); outv.extend(vs[:2]); stats['viol_' + s] = len(vs)
  return dict(stats=stats, viol=outv, samples=samples, keys=dict(outcomes=outcomes))


def check_one(dialect, position, meta, out, text, stats, bad, outcomes, ref_cache):
  sql = out[4]
  if dialect == 'sqlite':
    db = impl.Db({}); got = db.run(out); db.close(); stats['executions'] += 1
    if got[0] != 'rows':
      bad('sqlite-sql-error/%s' % position, 'emitted SQL does not run: %s' % got[1], text); return
    rows = {r[got[1].index('col0')]: norm_got(r[got[1].index('col1')]) if position in ('list', 'record', 'nested') else r[got[1].index('col1')] for r in got[2] if position != 'body_in' or r[got[1].index('col1')] != 'z'}
    for k, s in meta:
      stats['comparisons'] += 1
      exp = sqlite_value(position, s)
      g = rows.get(k, '<missing row>')
      outcomes.add(('sqlite', position, g == exp))
      if g != exp:
        sig = classify_sqlite(exp, g) or 'sqlite-value-altered/%s' % position
        if sig == 'sqlite-multiline-literal-reindented': sig = 'multiline-literal-reindented/sqlite'
        bad(sig, 'string %r in position %s came back as %r (expected %r)' % (s, position, g, exp), text, dict(string=s))
    return
  # other dialects: lexical oracle
  try:
    toks = sqllex.lex(sql, dialect)
  except sqllex.LexError as e:
    bad('sql-does-not-lex/%s/%s' % (dialect, position), 'emitted SQL is not well-formed for %s: %s; strings %r' % (dialect, e, [s for _, s in meta][:6]), text, dict(sql=sql[:600])); return
  br = sqllex.check_brackets(toks)
  if br: bad('sql-brackets/%s/%s' % (dialect, position), '%s; strings %r' % (br, [s for _, s in meta][:6]), text, dict(sql=sql[:600])); return
  # same token shape as the program with benign strings
  key = (dialect, position, tuple(k for k, _ in meta))
  if key not in ref_cache:
    items = [(k, '"abc"') for k, _ in meta]
    if position == 'user_flag':
      rt = '@Engine("%s");\n@DefineFlag("f", "%s");\n' % (dialect, FLAG_F) + ''.join('@DefineFlag("fl%d", "d");\nT(%d, FlagValue("fl%d"));\n' % (k, k, k) for k, _ in meta)
      ro = impl.Compiled(rt, flags={'fl%d' % k: 'abc' for k, _ in meta}).sql('T')
    else:
      ro = impl.Compiled(program(dialect, position, items)).sql('T')
    stats['compiles'] += 1
    ref_cache[key] = sqllex.shape(sqllex.lex(ro[4], dialect)) if ro[0] == 'script' else None
  ref = ref_cache[key]
  stats['comparisons'] += 1
  sh = sqllex.shape(toks)
  if ref is not None and sh != ref:
    bad('sql-structure-altered/%s/%s' % (dialect, position), 'token shape differs from the same program with the string abc; strings %r' % ([s for _, s in meta][:8],), text, dict(sql=sql[:600])); return
  decoded = [v for k, t, v in toks if k == 'str']
  for k, s in meta:
    stats['comparisons'] += 1
    e = expand(s)
    want = '<' + e + '>' if False else e
    ok = want in decoded or (position in ('concat', 'concat_tight') and any(want == d for d in decoded))
    outcomes.add((dialect, position, ok))
    if not ok and '\n' in want and any(isinstance(d, str) and d != want and re.sub(r'\n +', '\n', d) == want for d in decoded):
      bad('multiline-literal-reindented/%s' % dialect, 'string %r comes back re-indented' % e, text, dict(string=s)); continue
    if not ok:
      bad('literal-decodes-differently/%s/%s' % (dialect, position), 'string %r is not among the decoded literals %r' % (e, [d for d in decoded if d not in ("<", ">", "z", "abc")][:6]), text, dict(string=s, sql=sql[:400]))


class Timeout(Exception): pass


def flags_special(stats, bad, _v):
  """undefined flag, cyclic flags (must be a diagnostic, never a hang), user value over default, expansion to a fixed point"""
  def alarm(*a): raise Timeout()
  cases = [
    ('undefined-flag', '@Engine("sqlite");\nT("${g}");\n', {}, 'diag'),
    ('undefined-flag-in-flag', '@Engine("sqlite");\n@DefineFlag("a", "${g}");\nT(FlagValue("a"));\n', {}, 'diag'),
    ('cyclic-flags', '@Engine("sqlite");\n@DefineFlag("a", "${b}");\n@DefineFlag("b", "${a}");\nT(FlagValue("a"));\n', {}, 'diag-or-ignored'),   # must terminate; a 2-cycle reaches a fixed point of the substitution loop
    ('self-cyclic-flag', '@Engine("sqlite");\n@DefineFlag("a", "x${a}");\nT(FlagValue("a"));\n', {}, 'diag'),
    ('cyclic-user-flag', '@Engine("sqlite");\n@DefineFlag("a", "d");\n@DefineFlag("b", "${a}");\nT(FlagValue("b"));\n', {'a': '${b}'}, 'diag-or-ignored'),
    ('user-over-default', '@Engine("sqlite");\n@DefineFlag("a", "default");\nT(FlagValue("a"), "${a}!");\n', {'a': "users"}, [("users", "users!")]),
    ('dollar-expansion-of-a-quote-inside-a-literal', '@Engine("sqlite");\n@DefineFlag("a", "default");\nT(FlagValue("a"), "${a}!");\n', {'a': "user's"}, [("user's", "user's!")]),
    ('nested-expansion', '@Engine("sqlite");\n@DefineFlag("a", "1${b}");\n@DefineFlag("b", "2${c}");\n@DefineFlag("c", "3");\nT(FlagValue("a"), "${a}${c}");\n', {}, [('123', '1233')]),
    ('user-value-with-reference', '@Engine("sqlite");\n@DefineFlag("a", "d");\n@DefineFlag("c", "C");\nT(FlagValue("a"));\n', {'a': 'x${c}y'}, [('xCy',)]),
    ('undefined-user-flag', '@Engine("sqlite");\n@DefineFlag("a", "d");\nT(FlagValue("a"));\n', {'zzz': '1'}, 'diag-or-ignored'),
  ]
  for name, text, flags, expect in cases:
    stats['compiles'] += 1; stats['comparisons'] += 1
    old = signal.signal(signal.SIGALRM, alarm); signal.alarm(8)
    try:
      out = impl.Compiled(text, flags=flags).sql('T')
    except Timeout:
      bad('flag-expansion-does-not-terminate/%s' % name, 'compilation did not finish within 8 s', text); continue
    finally:
      signal.alarm(0); signal.signal(signal.SIGALRM, old)
    if expect == 'diag':
      if out[0] != 'diag': bad('flag-misuse-not-diagnosed/%s' % name, 'expected a diagnostic, got %s' % (out[:2] if out[0] != 'script' else 'SQL'), text)
    elif expect == 'diag-or-ignored':
      if out[0] not in ('diag', 'script'): bad('flag-misuse-not-diagnosed/%s' % name, 'got %s' % (out[:2],), text)
    else:
      if out[0] != 'script': bad('flag-program-rejected/%s' % name, '%s %s' % (out[1], out[2][:120]), text); continue
      db = impl.Db({}); got = db.run(out); db.close()
      if got[0] != 'rows' or [tuple(r) for r in got[2]] != expect:
        bad('flag-value-wrong/%s' % name, 'got %r expected %r' % (got[1:], expect), text)
  # the caller's user_flags object is an input: it must not be written to, and a second compilation that re-uses the same
  # object must see its own program's defaults
  shared = {'other': 'o'}
  p1 = '@Engine("sqlite");\n@DefineFlag("other", "x");\n@DefineFlag("a", "first {0} %s -- default");\nT(FlagValue("a"), FlagValue("other"));\n'
  p2 = '@Engine("sqlite");\n@DefineFlag("other", "x");\n@DefineFlag("a", "second");\nT(FlagValue("a"), FlagValue("other"));\n'
  for name, text, expect in (('first', p1, "first {0} %s -- default"), ('second-with-the-same-flags-object', p2, 'second')):
    stats['compiles'] += 1; stats['comparisons'] += 1
    out = impl.Compiled(text, flags=shared).sql('T')
    if out[0] != 'script': bad('flag-program-rejected/shared-flags-%s' % name, '%s %s' % (out[1], out[2][:120]), text); continue
    db = impl.Db({}); got = db.run(out); db.close()
    if got[0] != 'rows' or [tuple(r) for r in got[2]] != [(expect, 'o')]:
      bad('flag-value-wrong/shared-flags-%s' % name, 'got %r expected %r' % (got[1:], [(expect, 'o')]), text)
    if shared != {'other': 'o'}:
      bad('user-flags-object-mutated', 'the caller\'s user_flags dict was changed to %r' % shared, text); shared = {'other': 'o'}
  return dict(stats=stats, viol=list(_v), samples=[dict(flags='cyclic @DefineFlag definitions must raise RuleCompileException within 8 s')], keys=dict(outcomes=set()))


def coverage(ctx, merged):
  s = merged['stats']
  return dict(
    states=s.get('literals', 0), transitions=s.get('compiles', 0) + s.get('executions', 0), traces_validated_against_impl=s.get('comparisons', 0),
    samples=merged['samples'], exhaustive=True, evaluations=s.get('literals', 0), distinct_nontrivial=len(merged['keys'].get('outcomes', ())) + len(strings(2)),
    rule='state = one (string, position, literal form, dialect); transition = one compilation (batched 20 literals) / one SQLite execution; distinct_nontrivial = distinct strings + distinct (dialect, position, outcome) triples',
    strings=len(strings(3 if ctx.thorough else 2)), positions=POSITIONS, dialects=sqllex.DIALECTS, literal_instances=s.get('literals', 0),
    bounds=dict(alphabet=SYMS, max_len=3 if ctx.thorough else 2, words=WORDS), cap_hit=False)


def replay(ctx, case):
  # re-run the recorded program text on its dialect
  impl.accelerate_library_parse()
  text = case['text']
  m = re.search(r'@Engine\("(\w+)"\)', text); dialect = m.group(1) if m else 'sqlite'
  stats = dict(compiles=0, comparisons=0, strings=0, literals=0, executions=0, diagnostics=0); viol = []
  out = impl.Compiled(text).sql('T')
  if out[0] != 'script':
    return [dict(sig='replay-rejected/%s' % out[1], what=str(out[2])[:200], case=case)]
  s = (case.get('extra') or {}).get('string')
  if s is not None and dialect == 'sqlite':
    db = impl.Db({}); got = db.run(out); db.close()
    vals = [v for r in got[2] for v in r] if got[0] == 'rows' else []
    if not any(expand(s) in str(v) for v in vals): return [dict(sig='sqlite-value-altered', what='still altered', case=case)]
    return []
  try:
    toks = sqllex.lex(out[4], dialect)
    if sqllex.check_brackets(toks): return [dict(sig='sql-brackets/%s' % dialect, what='unbalanced', case=case)]
    if s is not None and expand(s) not in [v for k, t, v in toks if k == 'str']: return [dict(sig='literal-decodes-differently/%s' % dialect, what='still different', case=case)]
  except sqllex.LexError as e:
    return [dict(sig='sql-does-not-lex/%s' % dialect, what=str(e), case=case)]
  return []


LEVEL_TEXT = ('All strings of length <=2 (thorough 3) over a 16-symbol alphabet of every character special to Logica, Python formatting and the eight SQL dialects (quotes, backslash, newline, tab, %, braces, $, '
              'comment markers, ;, non-ASCII) plus words (%s, {0}, ${f}, \\\', ...) x six positions (fact argument, list element, record field, ++ operand, flag default, user flag value) x every literal form '
              'able to denote the string x 8 dialects. SQLite: executed, value compared character for character. Other dialects: the emitted SQL is lexed with that dialect\'s rules, must have the same token '
              'shape as the SQL for the string abc, and the literal must decode to the original string. ${f} must expand (user value over default, to a fixed point); undefined and cyclic flags must be diagnostics within 8 s.')
LEVEL_NOTE = 'Trusted: mc/sqllex.py lexical rules (from documentation; only SQLite is executed). Bounded: length <=3, listed positions.'
