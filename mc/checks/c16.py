"""C16 - type unification is a symmetric idempotent meet; clash iff no common instance.

Complete enumeration of all ordered pairs of type terms of the tier's term set and of all triples over a
core set in all six unification orders, on the real reference_algebra.Unify, against the
set-of-ground-instances model (meet = intersection, computed structurally below)."""
import itertools
from .. import impl, explore

PID = 'C16'
LEVEL = 'model_checking'
TECHNIQUE = 'bounded-exhaustive enumeration of type-term pairs/triples on the real Unify vs a denotational meet'
ASSUMPTIONS = ['type terms limited to the stated alphabet (7 atoms, lists of non-lists, open/closed records over fields a, b, 0)',
               'nothing asserted about unification after a clash (the property restricts order independence to clash-free sets)']

ATOMS = ['Any', 'Singular', 'Sequential', 'Num', 'Str', 'Bool', 'Time']
FIELDS = ['a', 'b', 0]


def is_list(t): return isinstance(t, tuple) and t[0] == 'list'


def depth1():
  out = list(ATOMS)
  out += [('list', t) for t in ATOMS]
  for kind in ('open', 'closed'):
    out.append((kind, ()))
    for f in FIELDS:
      for t in ATOMS: out.append((kind, ((f, t),)))
    for f, g in itertools.combinations(FIELDS, 2):
      for t in ATOMS:
        for u in ATOMS: out.append((kind, ((f, t), (g, u))))
  return out


def depth2():
  d1 = depth1(); out = list(d1); seen = set(d1)
  for t in d1:
    if not is_list(t) and ('list', t) not in seen:
      seen.add(('list', t)); out.append(('list', t))
  for kind in ('open', 'closed'):
    for f in FIELDS:
      for t in d1:
        x = (kind, ((f, t),))
        if x not in seen: seen.add(x); out.append(x)
  return out


def depth3_chains():
  ctors = ['list', 'open-a', 'closed-a', 'open-0']
  out = []
  for chain in itertools.product(ctors, repeat=3):
    for atom in ATOMS:
      t = atom; ok = True
      for c in reversed(chain):
        if c == 'list':
          if is_list(t): ok = False; break
          t = ('list', t)
        else:
          kind, f = c.split('-'); f = 0 if f == '0' else f
          t = (kind, ((f, t),))
      if ok: out.append(t)
  return out


def core(n):
  d1 = depth1()
  c = [t for t in d1 if isinstance(t, str) or is_list(t) or len(t[1]) == 0 or (len(t[1]) == 1 and t[1][0][0] in ('a', 0))]
  if n > 44:
    c += [t for t in d1 if isinstance(t, tuple) and not is_list(t) and len(t[1]) == 1 and t[1][0][0] == 'b']
    few = ('Any', 'Num', 'Str')
    c += [t for t in d1 if isinstance(t, tuple) and not is_list(t) and len(t[1]) == 2 and t[1][0][0] == 'a' and t[1][1][0] == 0
          and t[1][0][1] in few and t[1][1][1] in few]
  return c


def wide_terms():
  """terms beyond the small alphabet: records of 11-13 fields (names f0..f12, positions 0..12, mixed), single-field differences at the
  first / middle / two-digit positions, nesting depth 4-5"""
  out = []
  cyc = ['Num', 'Str', 'Bool', 'Any', 'Singular', 'Num', 'Sequential', 'Str', 'Time', 'Num', 'Str', 'Bool', 'Num']
  for names in ([('f%d' % i) for i in range(13)], list(range(13)), [0, 1, 2, 'a', 10, 'b', 11, 'col10', 3, 'z', 12, 'f10', 4]):
    for kind in ('open', 'closed'):
      full = tuple(zip(names, cyc))
      out.append((kind, full[:12]))
      out.append((kind, full))                      # one more field
      out.append((kind, full[:11]))                 # one fewer
      out.append((kind, full[1:12]))                # first missing
      for pos in (0, 5, 10, 11):
        alt = list(full[:12]); alt[pos] = (alt[pos][0], 'Str' if alt[pos][1] != 'Str' else 'Num'); out.append((kind, tuple(alt)))
        alt = list(full[:12]); alt[pos] = (alt[pos][0], 'Any'); out.append((kind, tuple(alt)))
        alt = list(full[:12]); alt[pos] = (alt[pos][0], ('list', 'Num')); out.append((kind, tuple(alt)))
  deep = 'Num'
  for lvl in range(5):
    deep = ('list', deep) if lvl % 2 == 0 else ('open' if lvl == 1 else 'closed', (('a', deep), ('b', 'Str')))
    out.append(deep)
    out.append(('closed', (('r', deep), (0, 'Num'))))
  deep2 = 'Str'
  for lvl in range(5):
    deep2 = ('list', deep2) if lvl % 2 == 0 else ('open', (('a', deep2),))
    out.append(deep2)
  seen = set(); res = []
  for t in out:
    if t not in seen: seen.add(t); res.append(t)
  return res


CHAIN = [1]     # number of TypeReference links per node (the type checker builds chains of references)


RAW = [False]   # nested ground types left as plain strings (the type checker writes ['Num'], {'a': 'Str'}; Unify wraps them itself)


def mk(ra, t, nested=False):
  def R(x):
    r = ra.TypeReference(x)
    for _ in range(CHAIN[0] - 1): r = ra.TypeReference(r)
    return r
  if isinstance(t, str): return t if (RAW[0] and nested and t in ('Num', 'Str', 'Bool', 'Time')) else R(t)
  if t[0] == 'list': return R([mk(ra, t[1], True)])
  cls = ra.OpenRecord if t[0] == 'open' else ra.ClosedRecord
  return R(cls({f: mk(ra, u, True) for f, u in t[1]}))


# ---- the model: meet of two terms (None = empty intersection) --------------------------------------------
def meet(a, b):
  if a == 'Any': return b
  if b == 'Any': return a
  if isinstance(a, str) and isinstance(b, str):
    if a == b: return a
    s = {a, b}
    if s == {'Singular', 'Sequential'}: return 'Str'
    if 'Singular' in s: return (s - {'Singular'}).pop()
    if 'Sequential' in s: return 'Str' if 'Str' in s else None
    return None
  if isinstance(a, str): a, b = b, a
  if isinstance(b, str):
    if b == 'Singular': return None if a[0] == 'list' else a
    if b == 'Sequential': return a if a[0] == 'list' else None
    return None
  if a[0] == 'list' or b[0] == 'list':
    if a[0] == b[0] == 'list':
      e = meet(a[1], b[1])
      return None if e is None else ('list', e)
    return None
  da, db = dict(a[1]), dict(b[1])
  if a[0] == 'closed' and b[0] == 'closed' and set(da) != set(db): return None
  if a[0] == 'closed' and b[0] == 'open' and not set(db) <= set(da): return None
  if b[0] == 'closed' and a[0] == 'open' and not set(da) <= set(db): return None
  kind = 'closed' if 'closed' in (a[0], b[0]) else 'open'
  out = {}
  for f in set(da) | set(db):
    if f in da and f in db:
      m = meet(da[f], db[f])
      if m is None: return None
    else:
      m = da.get(f, db.get(f))
    out[f] = m
  return (kind, tuple(sorted(out.items(), key=lambda kv: str(kv[0]))))


def canon(t):
  if isinstance(t, str): return t
  if t[0] == 'list': return ('list', canon(t[1]))
  return (t[0], tuple(sorted(((f, canon(u)) for f, u in t[1]), key=lambda kv: str(kv[0]))))


def leq(a, b):
  """a is at least as specific as b (a's instances are instances of b)."""
  return meet(a, b) == a


class Clash(Exception): pass


def conv(ra, v):
  if isinstance(v, ra.BadType): raise Clash()
  if isinstance(v, str): return v
  if isinstance(v, list): return ('list', conv(ra, v[0]))
  if isinstance(v, dict):
    kind = 'open' if isinstance(v, ra.OpenRecord) else 'closed'
    return (kind, tuple(sorted(((f, conv(ra, u)) for f, u in v.items()), key=lambda kv: str(kv[0]))))
  raise AssertionError(v)


def obs(ra, r):
  """what a caller observes: CLASH iff the reference itself is marked incompatible (r.IsBadType()). A clash that
  survives only nested inside an otherwise healthy list/record is reported separately: error reporting looks at the top."""
  try:
    v = conv(ra, ra.VeryConcreteType(r))
  except Clash:
    return 'CLASH' if r.IsBadType() else 'NESTED-CLASH'
  return v


def check_pair(ra, a, b, bad):
  """One ordered pair. Returns number of oracle comparisons."""
  def v(kind, **kw):
    bad.append(dict(sig=kind, what='%s: a=%r b=%r %s' % (kind, a, b, kw), case=dict(kind='pair', a=a, b=b, raw=RAW[0])))
  x, y = mk(ra, a), mk(ra, b)
  try:
    ra.Unify(x, y)
  except Exception as e:
    v('exception:' + type(e).__name__, msg=str(e)[:100]); return 1
  ox, oy = obs(ra, x), obs(ra, y)
  m = meet(canon(a), canon(b))
  if m is None:
    if ox != 'CLASH' and oy != 'CLASH': v('missed_clash', got=(ox, oy))
    elif ox != 'CLASH' or oy != 'CLASH': v('one_sided_clash', got=(ox, oy))
  else:
    if ox == 'CLASH' or oy == 'CLASH': v('spurious_clash', got=(ox, oy), meet=m)
    elif ox != oy: v('sides_differ', got=(ox, oy))
    elif ox != m: v('wrong_meet', got=ox, meet=m)
    elif not (leq(ox, canon(a)) and leq(ox, canon(b))): v('lost_information', got=ox)
  # idempotence
  try:
    ra.Unify(x, y)
    if (obs(ra, x), obs(ra, y)) != (ox, oy): v('not_idempotent', first=(ox, oy), second=(obs(ra, x), obs(ra, y)))
    ra.Unify(y, x)
    if (obs(ra, x), obs(ra, y)) != (ox, oy): v('not_idempotent_swapped', first=(ox, oy))
  except Exception as e:
    v('exception_on_repeat:' + type(e).__name__)
  # symmetry: fresh copies, other argument order
  x2, y2 = mk(ra, a), mk(ra, b)
  try:
    ra.Unify(y2, x2)
    if (obs(ra, x2), obs(ra, y2)) != (ox, oy): v('asymmetric', ab=(ox, oy), ba=(obs(ra, x2), obs(ra, y2)))
  except Exception as e:
    v('exception_swapped:' + type(e).__name__)
  return 4


def check_triple(ra, a, b, c, bad):
  terms = [canon(a), canon(b), canon(c)]
  m = meet(terms[0], terms[1]); m = None if m is None else meet(m, terms[2])
  results = set(); n = 0
  def v(kind, extra=''):
    bad.append(dict(sig=kind + '3', what='%s: %r %r %r -> %r model=%r %s' % (kind, a, b, c, sorted(results, key=str), m, extra),
                    case=dict(kind='triple', a=a, b=b, c=c)))
  for (i, j, k), star in itertools.product(itertools.permutations([0, 1, 2]), (False, True)):
    refs = [mk(ra, a), mk(ra, b), mk(ra, c)]
    try:
      # chain: (i,j) then (j,k); star: (i,j) then (i,k) - the already unified side is the first argument again
      ra.Unify(refs[i], refs[j])
      if star: ra.Unify(refs[i], refs[k])
      else: ra.Unify(refs[j], refs[k])
    except Exception as e:
      bad.append(dict(sig='exception3:' + type(e).__name__, what='triple %r %r %r order %r' % (a, b, c, (i, j, k)),
                      case=dict(kind='triple', a=a, b=b, c=c))); continue
    o = tuple(obs(ra, r) for r in refs); n += 1
    if m is None:
      # Nothing is asserted after the first clash (the property restricts order independence to clash-free
      # sets): only an order whose first step is clash-free must report the clash of its second step.
      first = i if star else j
      if meet(terms[i], terms[j]) is not None and o[first] != 'CLASH' and o[k] != 'CLASH':
        v('missed_clash', 'order=%r star=%r got=%r' % ((i, j, k), star, o))
    else:
      results.add(o)
  if m is not None:
    if len(results) != 1: v('order_dependent')
    elif any(x != m for x in next(iter(results))): v('wrong_meet')
  return n


def check_alias(ra, kind, r, t, u, bad):
  """x = {a: R, b: R} with one shared reference R; y = {a: t, b: u}. Both fields must end as r^t^u."""
  R = ra.TypeReference
  cls = ra.OpenRecord if kind == 'open' else ra.ClosedRecord
  for order in (0, 1):
    shared = R(r)
    x = R(cls({'a': shared, 'b': shared})); y = R(cls({'a': mk(ra, t), 'b': mk(ra, u)}))
    try:
      ra.Unify(x, y) if order == 0 else ra.Unify(y, x)
    except Exception as e:
      bad.append(dict(sig='exception_alias:' + type(e).__name__, what='alias %r' % ((kind, r, t, u),), case=dict(kind='alias', k=kind, r=r, t=t, u=u))); continue
    m = meet(r, t); m = None if m is None else meet(m, u)
    ox, oy = obs(ra, x), obs(ra, y)
    exp = 'CLASH' if m is None else (kind, (('a', m), ('b', m)))
    if m is None:
      if ox != 'CLASH' and oy != 'CLASH':
        bad.append(dict(sig='missed_clash_alias', what='alias %r got %r %r' % ((kind, r, t, u), ox, oy), case=dict(kind='alias', k=kind, r=r, t=t, u=u)))
    elif ox != exp or oy != exp:
      bad.append(dict(sig='wrong_meet_alias', what='alias %r got %r %r expected %r' % ((kind, r, t, u), ox, oy, exp), case=dict(kind='alias', k=kind, r=r, t=t, u=u)))
  return 2


def check_alias_nested(ra, wrap, r, t, u, bad):
  """as check_alias, but the shared reference holds a list / a record (a shared subtree reached along two sibling paths when the type is read back)"""
  R = ra.TypeReference
  def W(x):
    return ('list', x) if wrap == 'list' else ('open', (('k', x),))
  n = 0
  for order in (0, 1):
    shared = mk(ra, W(r))
    x = R(ra.OpenRecord({'p': shared, 'q': shared})); y = R(ra.OpenRecord({'p': mk(ra, W(t)), 'q': mk(ra, W(u))}))
    try:
      ra.Unify(x, y) if order == 0 else ra.Unify(y, x)
    except Exception as e:
      bad.append(dict(sig='exception_alias:' + type(e).__name__, what='nested alias %r' % ((wrap, r, t, u),), case=dict(kind='alias-nested', w=wrap, r=r, t=t, u=u))); continue
    m = meet(r, t); m = None if m is None else meet(m, u)
    if wrap == 'list' and m is not None and any(is_list(z) for z in (r, t, u)): m = None
    ox, oy = obs(ra, x), obs(ra, y); n += 1
    if m is None:
      if ox not in ('CLASH', 'NESTED-CLASH') and oy not in ('CLASH', 'NESTED-CLASH'):
        bad.append(dict(sig='missed_clash_alias', what='nested alias %r got %r %r' % ((wrap, r, t, u), ox, oy), case=dict(kind='alias-nested', w=wrap, r=r, t=t, u=u)))
    else:
      exp = ('open', (('p', canon(W(m))), ('q', canon(W(m)))))
      if ox != exp or oy != exp:
        bad.append(dict(sig='wrong_meet_alias', what='nested alias %r got %r %r expected %r' % ((wrap, r, t, u), ox, oy, exp), case=dict(kind='alias-nested', w=wrap, r=r, t=t, u=u)))
  return n


# ---- operation sequences on a pool of three references (the API the type checker drives: Unify, UnifyRecordField, UnifyListElement, CloseRecord)
OPS_INIT = ['Any', 'Num', 'Str', ('open', ()), ('open', (('a', 'Num'),)), ('open', (('a', 'Any'), (0, 'Str'))), ('closed', (('a', 'Num'),)), ('list', 'Any'), ('open', (('col10', 'Num'), (10, 'Str')))]
OPS_FIELDS = ['a', 'b', 0, 10, 'col10']


def ops_alphabet():
  ops = []
  for i in range(3):
    for j in range(3):
      if i != j: ops.append(('U', i, j))
    ops.append(('C', i))
    for f in OPS_FIELDS:
      for j in range(3):
        if i != j: ops.append(('F', i, f, j))
    for j in range(3):
      if i != j: ops.append(('E', i, j))
  return ops


def apply_op(ra, refs, op, definitional=False):
  """definitional=True performs F and E by their definition (`a.f = b` is Unify(a, {f: b}); `b in a` is b ~ Singular, a ~ [b])"""
  k = op[0]
  if k == 'U': ra.Unify(refs[op[1]], refs[op[2]])
  elif k == 'C':
    t = refs[op[1]]
    while t.WeMustGoDeeper(): t = t.target
    if isinstance(t.target, dict): refs[op[1]].CloseRecord()
  elif k == 'F':
    if definitional: ra.Unify(refs[op[1]], ra.TypeReference(ra.OpenRecord({op[2]: refs[op[3]]})))
    else: ra.UnifyRecordField(refs[op[1]], op[2], refs[op[3]])
  elif k == 'E':
    if definitional:
      ra.Unify(refs[op[2]], ra.TypeReference.To('Singular')); ra.Unify(refs[op[1]], ra.TypeReference([refs[op[2]]]))
    else: ra.UnifyListElement(refs[op[1]], refs[op[2]])


def ops_explore(ra, init, depth, bad, stats):
  """BFS over all op sequences up to `depth` from one initial triple. Invariants on every reached state:
  I-alias: two references unified without a clash observe the same type ever after, whatever is done through either alias (incl. CloseRecord);
  I-def:   UnifyRecordField / UnifyListElement leave the pool exactly as their definition through Unify does (same field name, same element);
  I-rep:   repeating the last operation changes nothing."""
  import copy
  ops = ops_alphabet()
  def v(sig, what, hist):
    bad.append(dict(sig=sig + '/ops', what='%s | init=%r ops=%r' % (what, init, hist), case=dict(kind='ops', init=init, ops=hist)))
  start = [mk(ra, t) for t in init]
  frontier = [([], start, set())]          # (history, refs, set of alias pairs known equal)
  seen = set()
  for level in range(depth):
    nxt = []
    for hist, refs, aliases in frontier:
      for op in ops:
        stats['transitions'] += 1
        r1 = copy.deepcopy(refs); r2 = copy.deepcopy(refs)
        try:
          apply_op(ra, r1, op)
          apply_op(ra, r2, op, definitional=True)
        except Exception as e:
          v('exception:' + type(e).__name__, str(e)[:80], hist + [op]); continue
        o1 = tuple(obs(ra, r) for r in r1); o2 = tuple(obs(ra, r) for r in r2)
        h2 = hist + [list(op)]
        if o1 != o2: v('operation-differs-from-its-definition', 'got %r, by definition %r' % (o1, o2), h2); continue
        al = set(aliases)
        if op[0] == 'U' and o1[op[1]] not in ('CLASH', 'NESTED-CLASH') and o1[op[2]] not in ('CLASH', 'NESTED-CLASH'): al.add((min(op[1], op[2]), max(op[1], op[2])))
        broken = [(i, j) for i, j in al if o1[i] != o1[j]]
        if broken and 'CLASH' not in o1 and 'NESTED-CLASH' not in o1:
          v('aliases-observe-different-types', 'references %r were unified earlier but now observe %r' % (broken, o1), h2); continue
        if 'CLASH' in o1 or 'NESTED-CLASH' in o1: continue          # nothing is asserted after a clash
        r3 = copy.deepcopy(r1)
        try:
          apply_op(ra, r3, op)
          o3 = tuple(obs(ra, r) for r in r3)
          if o3 != o1 and op[0] != 'C': v('operation-not-idempotent', 'first %r, repeated %r' % (o1, o3), h2); continue
        except Exception as e:
          v('exception-on-repeat:' + type(e).__name__, str(e)[:80], h2); continue
        key = (o1, frozenset(al), tuple(sorted((i, j) for i in range(3) for j in range(i + 1, 3) if same_root(r1[i], r1[j]))))
        if key in seen: continue
        seen.add(key); stats['states'] += 1
        nxt.append((h2, r1, al))
    frontier = nxt
  return len(seen)


def same_root(a, b):
  while a.WeMustGoDeeper(): a = a.target
  while b.WeMustGoDeeper(): b = b.target
  return a is b


def term_set(thorough):
  if not thorough: return depth1()
  ts = depth2(); seen = set(ts)
  for t in depth3_chains():
    if t not in seen: seen.add(t); ts.append(t)
  return ts


def plan(ctx):
  T = term_set(ctx.thorough)
  n = len(T)
  nsh = 64 if ctx.thorough else 32
  tasks = [('pairs', ctx.thorough, i, nsh) for i in range(nsh)]
  tasks += [('pairs-chained', False, i, 32) for i in range(32)]     # the same depth-1 pairs with every reference a chain of two links
  tasks += [('pairs-raw', False, i, 8) for i in range(8)]           # the same pairs with nested ground types written as plain strings; each shard is one long history in one process (a clash must not leak into later, fresh terms)
  ncore = 90 if ctx.thorough else 44
  tasks += [('triples', ncore, i, 32) for i in range(32)]
  if not ctx.thorough:
    tasks += [('pairs2', 0, i, 16) for i in range(16)]   # depth-2 terms x the 44 core terms, both orders
  tasks += [('alias', 0, 0, 1)]
  tasks += [('wide', c, i, 8) for c in (1, 3) for i in range(8)]
  inits = [t for t in itertools.product(range(len(OPS_INIT)), repeat=3) if t[0] <= t[1] or True]
  nsh2 = 64
  tasks += [('ops', 3 if ctx.thorough else 2, i, nsh2) for i in range(nsh2)]      # wide terms squared and against the core, references as chains of 1 and 3 links
  return tasks


def work(task):
  ra = impl.M('type_inference.research.reference_algebra')
  kind, arg, i, nsh = task
  bad = []; stats = dict(); samples = []
  CHAIN[0] = 2 if kind == 'pairs-chained' else 1
  RAW[0] = kind == 'pairs-raw'
  if kind in ('pairs-chained', 'pairs-raw'): kind = 'pairs'
  if kind == 'ops':
    CHAIN[0] = 1
    stats = dict(states=0, transitions=0, op_sequences_depth=arg)
    inits = list(itertools.product(OPS_INIT, repeat=3))
    for ii in range(i, len(inits), nsh):
      ops_explore(ra, list(inits[ii]), arg, bad, stats)
    stats = dict(op_states=stats['states'], op_transitions=stats['transitions'], op_sequences_depth=arg, unify_calls=stats['transitions'] * 3, comparisons=stats['transitions'] * 3)
    kind = 'done'
  if kind == 'wide':
    CHAIN[0] = arg
    W = wide_terms(); C = core(44); n = 0; cmp = 0; clashes = 0; nontriv = 0
    for ai in range(i, len(W), nsh):
      a = W[ai]
      for b in W + C:
        for p, q in ((a, b),) if b in W else ((a, b), (b, a)):
          n += 1; cmp += check_pair(ra, p, q, bad)
          m = meet(canon(p), canon(q))
          if m is None: clashes += 1
          elif m != canon(p) and m != canon(q): nontriv += 1
    stats = dict(pairs=n, unify_calls=n * 4, comparisons=cmp, model_clashes=clashes, proper_meets=nontriv, wide_terms=len(W) if i == 0 and arg == 1 else 0)
    kind = 'done'
  if kind == 'pairs':
    T = term_set(arg)
    n = 0; cmp = 0; clashes = 0; nontriv = 0
    for ai in range(i, len(T), nsh):
      a = T[ai]
      for b in T:
        n += 1; cmp += check_pair(ra, a, b, bad)
        m = meet(canon(a), canon(b))
        if m is None: clashes += 1
        elif m != canon(a) and m != canon(b): nontriv += 1
    if i == 0: samples.append(dict(pair=[repr(T[5]), repr(T[40])], model_meet=repr(meet(canon(T[5]), canon(T[40])))))
    stats = dict(pairs=n, unify_calls=n * 4, comparisons=cmp, model_clashes=clashes, proper_meets=nontriv, terms=len(T) if i == 0 else 0)
  elif kind == 'done':
    pass
  elif kind == 'pairs2':
    d1 = set(depth1()); T2 = [t for t in depth2() if t not in d1]; C = core(44)
    n = 0; cmp = 0; clashes = 0; nontriv = 0
    for ai in range(i, len(T2), nsh):
      a = T2[ai]
      for b in C:
        for p, q in ((a, b), (b, a)):
          n += 1; cmp += check_pair(ra, p, q, bad)
        m = meet(canon(a), canon(b))
        if m is None: clashes += 2
        elif m != canon(a) and m != canon(b): nontriv += 2
    if i == 0: samples.append(dict(pair=[repr(T2[7]), repr(C[20])], model_meet=repr(meet(canon(T2[7]), canon(C[20])))))
    stats = dict(pairs=n, unify_calls=n * 4, comparisons=cmp, model_clashes=clashes, proper_meets=nontriv)
  elif kind == 'triples':
    C = core(arg); n = 0; calls = 0
    for ai in range(i, len(C), nsh):
      for b in C:
        for c in C:
          n += 1; calls += 2 * check_triple(ra, C[ai], b, c, bad)
    if i == 0: samples.append(dict(triple=[repr(C[3]), repr(C[20]), repr(C[-1])], orders=6))
    stats = dict(triples=n, unify_calls=calls, comparisons=n, core_terms=len(C) if i == 0 else 0)
  else:
    n = 0
    for k in ('open', 'closed'):
      for r in ATOMS:
        for t in ATOMS:
          for u in ATOMS:
            n += check_alias(ra, k, r, t, u, bad)
    scalars = [a for a in ATOMS]
    for w in ('list', 'rec'):
      for r in scalars:
        for t in scalars:
          for u in scalars:
            n += check_alias_nested(ra, w, r, t, u, bad)
    samples.append(dict(alias='x={a:R,b:R} (one shared reference R=Any) unified with {a:Num,b:Any}; also R = a list / a record shared by two fields'))
    stats = dict(alias_cases=n, unify_calls=n, comparisons=n)
  # keep the violation list small: one witness per signature per shard + count
  out = {}
  for v in bad:
    out.setdefault(v['sig'], []).append(v)
  viol = []
  for s, vs in out.items():
    viol.extend(vs[:3])
    stats['viol_' + s] = len(vs)
  return dict(stats=stats, viol=viol, samples=samples)


def coverage(ctx, merged):
  s = merged['stats']
  states = s.get('pairs', 0) + s.get('triples', 0) + s.get('alias_cases', 0)
  return dict(
    states=states + s.get('op_states', 0), transitions=s.get('unify_calls', 0), traces_validated_against_impl=s.get('comparisons', 0),
    samples=merged['samples'], exhaustive=True,
    evaluations=states, distinct_nontrivial=s.get('proper_meets', 0) + s.get('model_clashes', 0),
    rule='state = one ordered pair / triple / aliased pair of type terms (all of them, no sampling); transition = one Unify call; '
         'non-trivial = the model meet is a clash or differs from both inputs; operation_sequence_states = distinct (observations, alias pairs, sharing) states of a three-reference pool reached by BFS over Unify / UnifyRecordField / UnifyListElement / CloseRecord',
    terms=s.get('terms', 0), pairs=s.get('pairs', 0), triples=s.get('triples', 0), triple_orders=12, core_terms=s.get('core_terms', 0),
    model_clashes=s.get('model_clashes', 0), proper_meets=s.get('proper_meets', 0),
    operation_sequence_states=s.get('op_states', 0), operation_sequence_transitions=s.get('op_transitions', 0), operation_pools=len(OPS_INIT) ** 3, operation_depth=3 if ctx.thorough else 2, wide_terms=len(wide_terms()),
    bounds=dict(depth=3 if ctx.thorough else 1, fields=['a', 'b', 0], atoms=ATOMS), cap_hit=False)


def tup(x):
  return tuple(tup(e) for e in x) if isinstance(x, list) else x


def replay(ctx, case):
  ra = impl.M('type_inference.research.reference_algebra')
  bad = []
  RAW[0] = bool(case.get('raw'))
  if RAW[0]:    # raw-leaf cases are checked inside one long history: replay after one clash of raw ground types
    try: ra.Unify(mk(ra, ('list', 'Num')), mk(ra, ('list', 'Str'))); ra.Unify(mk(ra, ('list', 'Bool')), mk(ra, ('list', 'Time')))
    except Exception: pass
  if case['kind'] == 'pair': check_pair(ra, tup(case['a']), tup(case['b']), bad)
  elif case['kind'] == 'triple': check_triple(ra, tup(case['a']), tup(case['b']), tup(case['c']), bad)
  else: check_alias(ra, case['k'], case['r'], case['t'], case['u'], bad)
  return bad

LEVEL_TEXT = ('Every ordered pair of type terms up to the tier bound (quick: all 352 depth-1 terms squared plus depth-2 terms against a 44-term core; '
              'thorough: all 3159 terms up to depth 3 squared, ~10M pairs), every triple over a core set in all six unification orders, and aliased '
              'records are run through the real reference_algebra.Unify and compared with a denotational meet; symmetry, idempotence, information '
              'preservation and clash-iff-empty-intersection are checked on each. Explicit-state BFS over all sequences of <=2 (thorough 3) operations Unify / UnifyRecordField / UnifyListElement / CloseRecord on a pool of three references from 9 initial terms (729 pools): aliases stay equal, every operation equals its definition through Unify, repetition changes nothing. 111 wide terms (12-13 fields, nesting 4-5, reference chains of 3) squared. The depth-1 pairs are run a third time with nested ground types written as plain strings (as infer.py writes them), each shard as one long history in one process, so a clash that leaks into later fresh terms through shared state is seen. Exhaustive within the stated alphabet, so any single-case slip in Unify is found.')
LEVEL_NOTE = ('Trusted: the 40-line structural meet in mc/checks/c16.py (the model). Bounded: nesting depth <=3, <=2 fields from {a,b,0}; '
              'nothing is asserted about unification after a clash has already occurred.')
