"""Documented shorthand <-> long form rewritings, one occurrence at a time (C11)."""
from . import lang
from .lang import Rule, Program, V, N


def col(i): return 'col%d' % i


def prop_rewrites(p, fresh, nested=False):
  """-> list of (kind, [replacement props])"""
  out = []
  t = p[0]
  if t == 'lit':
    if any(isinstance(f, int) for f, _ in p[2]):
      out.append(('positional=colN', [('lit', p[1], tuple((col(f) if isinstance(f, int) else f, e) for f, e in p[2]))]))
  elif t == 'eq':
    out.append(('=/==', [('eq', p[1], p[2], '=' if p[3] == '==' else '==')]))
    a, b = p[1], p[2]
    if a[0] == 'v' and b[0] == 'comb':
      out.append(('combine-syntax', [('eq', a, ('comb', b[1], b[2], b[3], 1 - b[4]), p[3])]))
      out.append(('combine-syntax', [('aggeq', a[1], b[1], b[2], b[3])]))
  elif t == 'cmp' and p[1][0] == 'bin' and p[1][1] == '==' and not nested:
    # `=` equals `==` in propositions, whatever stands on its left (a comparison of two bound expressions)
    out.append(('=/==', [('eq', p[1][2], p[1][3], '=')]))
  elif t == 'aggeq':
    out.append(('combine-syntax', [('eq', ('v', p[1]), ('comb', p[2], p[3], p[4], 0), '==')]))
    out.append(('combine-syntax', [('eq', ('v', p[1]), ('comb', p[2], p[3], p[4], 1), '==')]))
  elif t == 'not':
    out.append(('~=Max-is-null', [('cmp', ('isnull', ('comb', 'Max', N(1), p[1], 0)))]))
    for k, body in body_rewrites(p[1], fresh, True): out.append((k, [('not', body)]))
  elif t == 'imp':
    out.append(('=>', [('not', tuple(p[1]) + (('not', tuple(p[2])),))]))
  elif t == 'in':
    # (a disjunction inside an aggregation or negation is rejected with a diagnostic: the long form is not a program there)
    if p[2][0] == 'list' and 1 <= len(p[2][1]) <= 3 and not nested:
      out.append(('in=alternatives', [('or', tuple((('eq', p[1], e, '=='),) for e in p[2][1]))]))
  elif t == 'or':
    for i, b in enumerate(p[1]):
      for k, body in body_rewrites(b, fresh, nested):
        out.append((k, [('or', p[1][:i] + (body,) + p[1][i + 1:])]))
  # combines nested in expressions of this proposition
  if t in ('eq', 'cmp', 'lit', 'in'):
    def visit(e, rebuild):
      if e[0] == 'comb':
        for k, body in body_rewrites(e[3], fresh, True):
          out.append((k, [rebuild(('comb', e[1], e[2], body, e[4]))]))
        out.append(('combine-syntax', [rebuild(('comb', e[1], e[2], e[3], 1 - e[4]))]))
    exprs = []
    if t == 'eq': exprs = [(p[1], lambda n: ('eq', n, p[2], p[3])), (p[2], lambda n: ('eq', p[1], n, p[3]))]
    elif t == 'cmp': exprs = [(p[1], lambda n: ('cmp', n))]
    for e, rb in exprs:
      if e[0] == 'comb': visit(e, rb)
      elif e[0] == 'bin':
        for side in (2, 3):
          if e[side][0] == 'comb':
            visit(e[side], (lambda side, e, rb: lambda n: rb(e[:side] + (n,) + e[side + 1:]))(side, e, rb))
      elif e[0] == 'isnull' and e[1][0] == 'comb':
        visit(e[1], (lambda rb: lambda n: rb(('isnull', n)))(rb))
  # functional call of a user predicate -> extra conjunct
  return out


def body_rewrites(body, fresh, nested=False):
  out = []
  for i, p in enumerate(body):
    for kind, repl in prop_rewrites(p, fresh, nested):
      out.append((kind, tuple(body[:i]) + tuple(repl) + tuple(body[i + 1:])))
  return out


def lift_calls(r, defined, fresh):
  """functional call in an expression = extra conjunct binding logica_value (first call found, outside combines)"""
  found = []
  def f(e):
    if e[0] == 'call' and e[1] in defined and not found:
      fresh[0] += 1; v = 'fv%d' % fresh[0]
      args = tuple((i if k is None else k, a) for i, (k, a) in enumerate(e[2]))
      found.append(('lit', e[1], args + (('logica_value', ('v', v)),)))
      return ('v', v)
    return e
  def no_comb_map(e):
    # emap visits children first; calls inside combines belong to the combine's body: skip those
    if has_comb(e): return e
    return lang.emap(e, f)
  new_args = []
  for k, e in r.args:
    new_args.append((k, e if (isinstance(e, tuple) and e[0] == 'aggr') else no_comb_map(e)))
  new_value = r.value
  if r.value is not None and not (isinstance(r.value, tuple) and r.value[0] == 'aggr'): new_value = no_comb_map(r.value)
  new_body = []
  for p in (r.body or ()):
    if p[0] == 'eq' and not found: new_body.append(('eq', no_comb_map(p[1]), no_comb_map(p[2]), p[3]))
    elif p[0] == 'cmp' and not found: new_body.append(('cmp', no_comb_map(p[1])))
    elif p[0] == 'lit' and not found: new_body.append(('lit', p[1], tuple((k, no_comb_map(e)) for k, e in p[2])))
    else: new_body.append(p)
  if not found: return None
  return r.replace(args=tuple(new_args), value=new_value, body=tuple(new_body) + tuple(found))


def has_comb(e):
  res = [False]
  def f(x):
    if x[0] == 'comb': res[0] = True
    return x
  lang.emap(e, f)
  return res[0]


def program_rewrites(program):
  """-> list of (kind, Program): the program with exactly one occurrence of one shorthand replaced by its long form (or back)"""
  out = []
  stmts = program.stmts
  defined = set(program.defined())
  fresh = [0]
  def with_stmt(i, new):
    new = new if isinstance(new, list) else [new]
    return Program(stmts[:i] + new + stmts[i + 1:], program.engine, program.type_checking)
  for i, s in enumerate(stmts):
    if not isinstance(s, Rule): continue
    if s.body:
      for kind, body in body_rewrites(s.body, fresh):
        out.append((kind, with_stmt(i, s.replace(body=body))))
    # head: positional = colN   (all rules of the predicate must agree on column names: rewrite them together)
    if any(isinstance(f, int) for f, _ in s.args) and not any(isinstance(t, Rule) and t.pred == s.pred for t in stmts[:i]):
      new = [t.replace(args=tuple((col(f) if isinstance(f, int) else f, e) for f, e in t.args)) if isinstance(t, Rule) and t.pred == s.pred else t for t in stmts]
      out.append(('positional=colN(head)', Program(new, program.engine, program.type_checking)))
    # F(x) = v   <->   F(x, logica_value: v)
    if s.value is not None and not (isinstance(s.value, tuple) and s.value[0] == 'aggr'):
      out.append(('value=logica_value', with_stmt(i, s.replace(args=s.args + (('logica_value', s.value),), value=None))))
    # P(k) Op= e   <->   P(k, logica_value? Op= e) distinct
    if s.value is not None and isinstance(s.value, tuple) and s.value[0] == 'aggr':
      if not any(isinstance(t, Rule) and t.pred == s.pred for t in stmts[:i]):
        new = [t.replace(args=t.args + (('logica_value', t.value),), value=None, distinct=True) if isinstance(t, Rule) and t.pred == s.pred and t.value is not None else t for t in stmts]
        out.append(('Op==logica_value?distinct', Program(new, program.engine, program.type_checking)))
    lifted = lift_calls(s, defined, fresh)
    if lifted is not None: out.append(('call=conjunct', with_stmt(i, lifted)))
    # one rule with a top-level disjunction = several rules
    if s.body and len(s.body) == 1 and s.body[0][0] == 'or' and not s.is_agg() and not s.distinct:
      out.append(('|=rules', with_stmt(i, [s.replace(body=b) for b in s.body[0][1]])))
      # the same rules, not adjacent: rules of other predicates (or a helper fact) written between them
      parts = [s.replace(body=b) for b in s.body[0][1]]
      filler = Rule('Zfill9', ((0, N(1)),))
      out.append(('|=rules-interleaved', Program(stmts[:i] + [parts[0], filler] + stmts[i + 1:] + parts[1:], program.engine, program.type_checking)))
  # several rules with equal heads = one rule with |
  for i, s in enumerate(stmts):
    if isinstance(s, Rule) and s.body and i + 1 < len(stmts):
      t = stmts[i + 1]
      if isinstance(t, Rule) and t.pred == s.pred and t.args == s.args and t.value == s.value and t.body and not s.is_agg() and not s.distinct and not t.distinct \
         and sum(1 for u in stmts if isinstance(u, Rule) and u.pred == s.pred) == 2:
        merged = s.replace(body=(('or', (s.body, t.body)),))
        out.append(('rules=|', Program(stmts[:i] + [merged] + stmts[i + 2:], program.engine, program.type_checking)))
  return out
