"""Per-dialect SQL lexer, literal decoders, bracket check, placeholder-leak check and the alias / WITH scoper used by
C09 and C10.  Lexical rules are written from the engines' documentation; calibrated against SQLite only."""
import re

DIALECTS = ['sqlite', 'duckdb', 'psql', 'bigquery', 'trino', 'presto', 'clickhouse', 'databricks']


class LexError(Exception): pass


# which quoting constructs are *string literals* in which dialect
SQ_BACKSLASH = {'bigquery', 'clickhouse', 'databricks'}             # backslash is an escape inside '...'
SQ_DOUBLING = {'sqlite', 'duckdb', 'psql', 'trino', 'presto', 'clickhouse', 'databricks'}   # '' inside '...' is a quote
DQ_IS_STRING = {'bigquery', 'databricks', 'sqlite'}                 # "..." is a string (sqlite: falls back to a string when no such column)
HASH_COMMENT = {'bigquery'}

ESC = {'n': '\n', 't': '\t', 'r': '\r', 'b': '\b', 'f': '\f', '0': '\0', 'a': '\a', 'v': '\v', '\\': '\\', "'": "'", '"': '"', '`': '`', '/': '/', '?': '?'}


def lex(sql, dialect):
  """-> list of (kind, text, value). kind: str | qid | word | num | punct. Raises LexError."""
  out = []; i = 0; n = len(sql)
  while i < n:
    c = sql[i]
    if c.isspace(): i += 1; continue
    if sql.startswith('--', i) or (c == '#' and dialect in HASH_COMMENT):
      j = sql.find('\n', i); i = n if j < 0 else j + 1; continue
    if sql.startswith('/*', i):
      j = sql.find('*/', i + 2)
      if j < 0: raise LexError('unterminated comment at %d' % i)
      i = j + 2; continue
    # string prefixes
    m = re.match(r"([eE]|[rR][bB]?|[bB][rR]?)(?=['\"])", sql[i:]) if c in 'eErRbB' else None
    prefix = ''
    if m and (i == 0 or not (sql[i - 1].isalnum() or sql[i - 1] == '_')):
      prefix = m.group(1).lower(); i += len(prefix); c = sql[i]
    if c in '\'"':
      triple = sql.startswith(c * 3, i) and dialect in ('bigquery',)
      q = c * 3 if triple else c
      is_string = (c == "'") or dialect in DQ_IS_STRING
      backslash = ('e' in prefix) or (dialect in SQ_BACKSLASH if c == "'" else dialect in ('bigquery', 'databricks'))
      if 'r' in prefix: backslash = False
      doubling = (dialect in SQ_DOUBLING) if c == "'" else (dialect not in ('bigquery', 'databricks'))
      j = i + len(q); val = []
      while True:
        if j >= n: raise LexError('unterminated %s literal starting at %d: %r' % ('string' if is_string else 'identifier', i, sql[i:i + 30]))
        ch = sql[j]
        if backslash and ch == '\\':
          if j + 1 >= n: raise LexError('dangling backslash')
          e = sql[j + 1]
          if e == 'u' and re.match(r'[0-9a-fA-F]{4}', sql[j + 2:j + 6]): val.append(chr(int(sql[j + 2:j + 6], 16))); j += 6; continue
          if e == 'x' and re.match(r'[0-9a-fA-F]{2}', sql[j + 2:j + 4]): val.append(chr(int(sql[j + 2:j + 4], 16))); j += 4; continue
          val.append(ESC.get(e, e)); j += 2; continue
        if sql.startswith(q, j):
          if doubling and not triple and sql.startswith(q * 2, j): val.append(c); j += 2; continue
          j += len(q); break
        if ch == '\n' and dialect in ('bigquery', 'databricks') and not triple:
          raise LexError('newline inside a single-line literal at %d' % j)
        val.append(ch); j += 1
      out.append(('str' if is_string else 'qid', sql[i - len(prefix):j], ''.join(val))); i = j; continue
    if c == '`':
      j = sql.find('`', i + 1)
      if j < 0: raise LexError('unterminated backtick identifier')
      out.append(('qid', sql[i:j + 1], sql[i + 1:j])); i = j + 1; continue
    if prefix: i -= len(prefix); c = sql[i]
    m = re.match(r'\d+\.?\d*(?:[eE][+-]?\d+)?|\.\d+', sql[i:])
    if m and (c.isdigit() or c == '.') and not (c == '.' and not m.group(0)[1:].isdigit()):
      out.append(('num', m.group(0), None)); i += len(m.group(0)); continue
    m = re.match(r'[A-Za-z_\u0080-￿][\w$\u0080-￿]*', sql[i:])
    if m: out.append(('word', m.group(0), None)); i += len(m.group(0)); continue
    for op in ('->>', '||', '::', '<=', '>=', '<>', '!=', '->', '=>', '=='):
      if sql.startswith(op, i): out.append(('punct', op, None)); i += len(op); break
    else:
      out.append(('punct', c, None)); i += 1
  return out


def check_brackets(tokens):
  stack = []
  pairs = {')': '(', ']': '[', '}': '{'}
  for k, t, _ in tokens:
    if k != 'punct': continue
    if t in '([{': stack.append(t)
    elif t in ')]}':
      if not stack or stack[-1] != pairs[t]: return 'unbalanced %s' % t
      stack.pop()
  return 'unclosed %s' % stack[-1] if stack else None


def shape(tokens):
  """token sequence with literals abstracted"""
  return tuple(('S' if k == 'str' else 'N' if k == 'num' else t.upper() if k == 'word' else t) for k, t, _ in tokens)


LEAKS = [r'\bUNDEFINED_\w*', r'# disambiguated', r'\{\d+\}', r'\{[a-z_]+\}', r'%s', r'%\(', r'\bDUMMY\(\)', r'<function ', r'<.* object at 0x', r"\{'", r'\bNone\b', r'\bnil\b']


def leaks(sql, tokens):
  """compiler-internal placeholders in the text outside string literals"""
  outside = ' '.join(t for k, t, _ in tokens if k != 'str')
  found = []
  for pat in LEAKS:
    m = re.search(pat, outside)
    if m: found.append(m.group(0))
  return found


KW_END_FROM = {'WHERE', 'GROUP', 'ORDER', 'LIMIT', 'UNION', 'HAVING', 'WINDOW', 'QUALIFY', 'EXCEPT', 'INTERSECT'}
KEYWORDS = {'SELECT', 'FROM', 'AS', 'ON', 'JOIN', 'LEFT', 'INNER', 'CROSS', 'AND', 'OR', 'NOT', 'IN', 'IS', 'NULL', 'CASE', 'WHEN', 'THEN', 'ELSE', 'END', 'DISTINCT', 'ALL', 'BY', 'WITH', 'TABLE',
            'CREATE', 'DROP', 'IF', 'EXISTS', 'CAST', 'ARRAY', 'STRUCT', 'ROW', 'UNNEST', 'LATERAL', 'OVER', 'ASC', 'DESC', 'TRUE', 'FALSE', 'RECURSIVE', 'VALUES', 'OFFSET', 'ORDINALITY'} | KW_END_FROM


def scope_check(tokens):
  """Every `alias.column` must refer to an alias introduced by an enclosing or lateral-preceding FROM item (or be a
  schema-qualified table in FROM position); every WITH table must be defined before its first use; GROUP BY ordinals in
  range.  The compiler emits a regular shape, which is all this parser understands.  -> list of problems"""
  problems = []
  toks = [(k, t) for k, t, _ in tokens]
  n = len(toks)
  # ---- WITH tables: name AS ( ... ) ; uses of a WITH name as a FROM item must come after its definition started
  with_defs = {}
  for i in range(n - 2):
    if toks[i][0] == 'word' and toks[i + 1] == ('word', 'AS') and toks[i + 2] == ('punct', '(') and i > 0 and (toks[i - 1] == ('word', 'WITH') or toks[i - 1] == ('punct', ',')):
      with_defs.setdefault(toks[i][1], i)
  # ---- block structure by parentheses
  depth = 0; blocks = []      # stack of dict(aliases=set, start=i)
  stack = [dict(aliases=set(), in_from=False, sel=False, select_items=0)]
  declared_anywhere = set()
  # first pass: collect aliases per paren block (aliases declared by `AS x` or `) x` / `table x` in a FROM clause)
  block_of = [None] * n
  block_stack = [0]; blocks = [dict(parent=None, aliases=set(), open=-1)]
  for i, (k, t) in enumerate(toks):
    if (k, t) == ('punct', '('):
      blocks.append(dict(parent=block_stack[-1], aliases=set(), open=i)); block_stack.append(len(blocks) - 1)
    block_of[i] = block_stack[-1]
    if (k, t) == ('punct', ')') and len(block_stack) > 1: block_stack.pop()
  in_from = {}
  for i, (k, t) in enumerate(toks):
    b = block_of[i]
    up = t.upper() if k == 'word' else None
    if up == 'FROM': in_from[b] = True
    elif up in KW_END_FROM or up == 'SELECT': in_from[b] = False
    if up == 'AS' and i + 1 < n and toks[i + 1][0] in ('word', 'qid') and i > 0:
      # alias of a FROM item (also `JSON_EACH(x) as a`, `UNNEST(x) as a`) - only when this block (or the enclosing one) is in its FROM clause
      name = toks[i + 1][1].strip('`"')
      nxt = toks[i + 2] if i + 2 < n else ('', '')
      if in_from.get(b) and nxt != ('punct', '('):
        blocks[b]['aliases'].add(name); declared_anywhere.add(name)
      elif in_from.get(b) and nxt == ('punct', '('):
        # `UNNEST(...) as t(c1, c2)`: the table alias and its column aliases
        blocks[b]['aliases'].add(name)
        j = i + 3
        while j < n and toks[j] != ('punct', ')'):
          if toks[j][0] in ('word', 'qid'): blocks[b]['aliases'].add(toks[j][1].strip('`"'))
          j += 1
    elif in_from.get(b) and k == 'word' and up not in KEYWORDS and i > 0:
      prev = toks[i - 1]
      nxt = toks[i + 1] if i + 1 < n else ('end', '')
      # a FROM item without alias: the table name itself is the alias
      if (prev[0] == 'word' and prev[1].upper() in ('FROM', 'JOIN') or prev == ('punct', ',') or prev == ('punct', '.')) and \
         (nxt[0] == 'end' or nxt == ('punct', ',') or nxt == ('punct', ')') or (nxt[0] == 'word' and nxt[1].upper() in KW_END_FROM | {'ON', 'JOIN', 'LEFT', 'CROSS', 'INNER'})):
        blocks[b]['aliases'].add(t); declared_anywhere.add(t)
      # `schema.table alias` or `table alias` or `) alias`
      if prev[0] in ('word', 'qid') and (prev[1].upper() not in KEYWORDS) and (i < 2 or toks[i - 2] != ('punct', '.') or True):
        if i + 1 >= n or toks[i + 1] != ('punct', '.'):
          if i + 1 >= n or toks[i + 1] != ('punct', '('):
            blocks[b]['aliases'].add(t); declared_anywhere.add(t)
      elif prev == ('punct', ')'):
        blocks[b]['aliases'].add(t); declared_anywhere.add(t)
  def visible(b):
    s = set()
    while b is not None:
      s |= blocks[b]['aliases']; b = blocks[b]['parent']
    return s
  # aliases declared in a nested FROM-item block (e.g. JSON_EACH(...) as x inside parentheses of the same FROM) are lateral: make child
  # aliases of FROM-level function calls visible to the parent
  for bi, b in enumerate(blocks):
    pass
  # ---- references
  for i in range(n - 2):
    k, t = toks[i]
    if k in ('word', 'qid') and toks[i + 1] == ('punct', '.') and toks[i + 2][0] in ('word', 'qid', 'punct'):
      if toks[i + 2][0] == 'punct' and toks[i + 2][1] != '*': continue
      if i > 0 and toks[i - 1] == ('punct', '.'): continue       # middle of a.b.c
      name = t.strip('`"')
      if k == 'word' and name.upper() in KEYWORDS: continue
      b = block_of[i]
      if name in visible(b): continue
      # schema-qualified table in FROM position:  FROM schema.table [AS] alias  /  , schema.table AS alias / TABLE schema.t
      prev = toks[i - 1] if i > 0 else ('', '')
      if prev[0] == 'word' and prev[1].upper() in ('FROM', 'JOIN', 'TABLE', 'EXISTS', 'INTO'): continue
      if prev == ('punct', ',') and in_from_at(toks, block_of, i): continue
      problems.append('alias %s (in %s.%s) is not introduced by an enclosing FROM' % (name, name, toks[i + 2][1]))
  # ---- WITH uses before definition
  for name, di in with_defs.items():
    for i in range(di):
      if toks[i] == ('word', name) and i > 0 and toks[i - 1][0] == 'word' and toks[i - 1][1].upper() in ('FROM', 'JOIN'):
        problems.append('WITH table %s used before it is defined' % name)
  # ---- FROM items that name a t_N_X WITH table that is never defined
  for i in range(1, n):
    k, t = toks[i]
    if k == 'word' and re.match(r't_\d+_\w+$', t) and toks[i - 1][0] == 'word' and toks[i - 1][1].upper() in ('FROM', 'JOIN') or (k == 'word' and re.match(r't_\d+_\w+$', t) and toks[i - 1] == ('punct', ',') and in_from_at(toks, block_of, i)):
      if i + 1 < n and toks[i + 1] == ('punct', '.'): continue
      if t not in with_defs and (i + 1 < n and toks[i + 1] == ('word', 'AS')):
        problems.append('FROM item %s is not a defined WITH table' % t)
  return problems


def in_from_at(toks, block_of, i):
  """is position i inside the FROM clause of its block?"""
  b = block_of[i]
  j = i - 1
  while j >= 0:
    if block_of[j] == b and toks[j][0] == 'word':
      up = toks[j][1].upper()
      if up == 'FROM': return True
      if up in KW_END_FROM or up == 'SELECT': return False
    j -= 1
  return False
