"""The finite grammars ("families") of generated programs, enumerated completely up to the tier bounds.
Every generator yields semcheck.Case objects; de-duplication is by rendered text."""
import itertools
from . import lang, refsem, semcheck
from .lang import R, Rule, Lit, V, N, S, Bin, Eq, Cmp, Not, Comb, Call, Program, Aggr
from .semcheck import Case, dbs_ab, FACT_DBS_AB

x, y, z = V('x'), V('y'), V('z')
TERMS = [x, y, z, N(1)]


def static_ok(rules, pred, schema='AB'):
  """range-restricted by the model's scheduler (evaluated on one-row tables)"""
  tables = {t: (cols, [tuple(1 for _ in cols)]) for t, cols in semcheck.SCHEMAS[schema].items()}
  try:
    refsem.Evaluator(rules, tables).rows(pred)
    return True
  except refsem.Unsafe:
    return False


def first_occurrence_canonical(lits, names=('x', 'y', 'z')):
  order = []
  for l in lits:
    for _, t in l[2]:
      if t[0] == 'v' and t[1] not in order: order.append(t[1])
  return order == list(names[:len(order)])


def lits_ab():
  return [Lit('A', a, b) for a in TERMS for b in TERMS] + [Lit('B', a) for a in TERMS]


def heads_for(hv, full=True):
  """head argument lists for the bound variables hv (sorted names)"""
  vs = [V(v) for v in hv]
  out = []
  if not vs: return [((0, N(1)),), ()]
  for v in vs: out.append(((0, v),))
  pairs = [(a, b) for a in vs for b in vs if a[1] <= b[1]]
  for a, b in pairs[:4]: out.append(((0, a), (1, b)))
  out.append(((0, Bin('+', vs[0], vs[-1])),))
  if full:
    out.append((('p', vs[0]), ('q', vs[-1])))                 # named
    out.append(((0, N(1)), (1, vs[-1])))                      # constant in head
    out.append(())                                            # zero arity
    out.append(((0, vs[0]), ('p', Bin('*', vs[-1], N(2)))))   # mixed positional / named
  return out


def gen_cq(kmax, full_heads=True):
  seen = set()
  LITS = lits_ab()
  for k in range(1, kmax + 1):
    for lits in itertools.product(LITS, repeat=k):
      if not first_occurrence_canonical(lits): continue
      # conjunct multiset canonical: sorted literal tuple must be minimal under permutation for k>=2? keep all orders
      hv = sorted(lang.bvars(lits))
      for head in heads_for(hv, full_heads and k <= 2):
        r = Rule('T', head, lits)
        t = lang.rule_str(r)
        if t in seen: continue
        seen.add(t)
        yield Case('CQ', Program([r]), ['T'])


def extras():
  out = []
  for op in ('<', '!=', '>='):
    for t in (y, N(1)): out.append(Cmp(op, x, t))
  out.append(('cmp', Bin('&&', Bin('<', x, N(2)), Bin('>', y, N(1)))))
  out.append(('cmp', Bin('||', Bin('==', x, N(1)), Bin('==', y, N(1)))))
  out.append(('cmp', ('un', '!', Bin('==', x, y))))
  out.append(Eq(z, Bin('+', x, y)))
  out.append(Eq(z, Bin('*', x, N(2)), '='))
  out.append(Eq(Bin('+', x, y), z))
  out.append(Eq(z, ('if', Bin('<', x, y), x, y)))
  out.append(('in', x, ('list', (N(1), N(2)))))
  out.append(('in', z, ('list', (x, y))))
  out.append(('in', z, ('list', (x, x))))
  out.append(Eq(z, Bin('-', Bin('+', x, y), x)))
  return out


def gen_cons(kmax):
  seen = set()
  LITS = lits_ab()
  for k in range(1, kmax + 1):
    for lits in itertools.product(LITS, repeat=k):
      if not first_occurrence_canonical(lits): continue
      for extra in extras():
        for pos in ((k,) if k > 1 else (0, k)):
          body = lits[:pos] + (extra,) + lits[pos:]
          hv = sorted(lang.bvars(body))
          for head in heads_for(hv, False)[:7]:
            r = Rule('T', head, body)
            t = lang.rule_str(r)
            if t in seen: continue
            if not static_ok([r], 'T'): continue
            seen.add(t)
            yield Case('CONS', Program([r]), ['T'])


DISJ_BODIES = [
  (Lit('A', x, y),), (Lit('A', y, x),), (Lit('A', x, x), Eq(y, x)), (Lit('B', x), Lit('B', y)), (Lit('A', x, y), Lit('B', y)),
  (Lit('B', x), Eq(y, Bin('+', x, N(1)))), (Lit('A', x, y), Cmp('<', x, y)), (Lit('B', x), ('in', y, ('list', (N(1), x)))),
  (Lit('A', x, N(1)), Lit('B', y)), (Lit('B', y), Eq(x, N(2))), (Lit('A', x, z), Lit('A', z, y)), (Lit('B', x), Lit('A', y, x)),
]


def gen_disj(full):
  bodies = DISJ_BODIES if full else DISJ_BODIES[:8]
  for b1, b2 in itertools.product(bodies, repeat=2):
    yield Case('DISJ', Program([R('T', x, y, body=(('or', (b1, b2)),))]), ['T'])
    yield Case('DISJ', Program([R('T', x, y, body=b1), R('T', x, y, body=b2)]), ['T'])
  for b1, b2 in itertools.product(bodies[:6], repeat=2):
    for c3 in (Lit('B', x), Cmp('<=', x, y), Lit('A', y, z)):
      head = (x, y) if c3[1] != 'A' else (x, z)
      yield Case('DISJ', Program([R('T', *head, body=(('or', (b1, b2)), c3))]), ['T'])
      yield Case('DISJ', Program([R('T', *head, body=(c3, ('or', (b1, b2))))]), ['T'])
  # three alternatives, three rules
  for b1, b2, b3 in itertools.product(bodies[:4], repeat=3):
    yield Case('DISJ', Program([R('T', x, y, body=(('or', (b1, b2, b3)),))]), ['T'])
    if full: yield Case('DISJ', Program([R('T', x, y, body=b1), R('T', x, y, body=b2), R('T', x, y, body=b3)]), ['T'])


# ---- EXPR: expression trees over x, y (numbers), batched per program
def num_exprs(depth):
  base = [x, y, N(1), N(2)]
  if depth == 0: return base
  sub = num_exprs(depth - 1)
  out = list(base)
  small = sub if depth == 1 else sub[:10]
  for op in ('+', '-', '*'):
    for a in small:
      for b in small: out.append(Bin(op, a, b))
  for a in small:
    out.append(('un', '-', a))
    out.append(Bin('%', Bin('+', Bin('*', a, a), N(1)), N(3)))
  return out


def bool_exprs(depth):
  ne = num_exprs(0)
  cmp = [Bin(op, a, b) for op in ('==', '!=', '<', '<=', '>', '>=') for a in ne[:3] for b in ne[:3] if a != b]
  if depth == 0: return cmp
  out = list(cmp)
  for a, b in itertools.product(cmp[:8], repeat=2):
    out.append(Bin('&&', a, b)); out.append(Bin('||', a, b))
  for a in cmp[:12]: out.append(('un', '!', a))
  return out


def all_exprs(full):
  ne1 = num_exprs(1)
  out = list(num_exprs(2 if full else 1))
  be = bool_exprs(1)
  out += be
  # if-then-else chains
  for c in be[:14]:
    for t, e in ((x, y), (N(1), Bin('+', x, y)), (Bin('*', x, y), N(0))):
      out.append(('if', c, t, e))
  for c1, c2 in itertools.product(be[:6], repeat=2):
    out.append(('if', c1, x, ('if', c2, y, N(0))))
  # strings
  sx = Call('ToString', x); sy = Call('ToString', y)
  out += [Bin('++', sx, sy), Bin('++', S('a'), sx), Bin('++', Bin('++', sx, S('-')), sy), Bin('==', sx, S('1')), Bin('==', Bin('++', sx, sy), S('12'))]
  # lists
  l1 = ('list', (x, y)); l2 = ('list', (x, y, N(1))); l3 = ('list', (Bin('+', x, y), x))
  for l in (l1, l2, l3):
    out += [l, Call('Size', l), ('elem', l, N(0)), ('elem', l, N(1)), ('inx', x, l), ('inx', N(2), l), ('elem', l, Bin('-', y, N(1)))]
  out += [('list', ()), Call('Size', ('list', ())), ('list', (S('a'), sx))]
  # records
  r1 = ('rec', (('a', x), ('b', y))); r2 = ('rec', (('a', x), ('r', ('rec', (('c', y), ('d', Bin('+', x, y)))))))
  out += [r1, r2, ('fld', r1, 'a'), ('fld', r1, 'b'), ('fld', ('fld', r2, 'r'), 'd'), ('fld', r2, 'r'), Bin('+', ('fld', r1, 'a'), ('fld', ('fld', r2, 'r'), 'c')),
          ('rec', (('l', l1), ('n', N(1)))), ('fld', ('rec', (('l', l1), ('n', N(1)))), 'l'), ('list', (r1,)), ('fld', ('elem', ('list', (r1, r1)), N(1)), 'b')]
  out += [Call('Greatest', x, y), Call('Least', x, y), Call('Greatest', x, Bin('+', y, N(1))), ('isnull', x), ('un', '!', ('isnull', x))]
  return out


def gen_expr(full, batch=16):
  es = all_exprs(full)
  seen = set(); uniq = []
  for e in es:
    k = lang.ex(e)
    if k not in seen: seen.add(k); uniq.append(e)
  for i in range(0, len(uniq), batch):
    chunk = uniq[i:i + batch]
    r = Rule('T', tuple((j, e) for j, e in enumerate(chunk)), (Lit('A', x, y),))
    yield Case('EXPR', Program([r]), ['T'], info=dict(batch=len(chunk)))
  # record-pattern unification and assignment to expressions, one per program
  for body in [
    (Lit('A', x, y), Eq(V('r'), ('rec', (('a', x), ('b', y)))), Eq(('rec', (('a', V('p')), ('b', V('q')))), V('r'))),
    (Lit('A', x, y), Eq(('rec', (('a', V('p')), ('b', V('q')))), ('rec', (('a', Bin('+', x, N(1))), ('b', y))))),
    (Lit('A', x, y), Eq(V('r'), ('rec', (('a', x), ('b', ('rec', (('c', y),)))))), Eq(V('p'), ('fld', V('r'), 'a')), Eq(V('q'), ('fld', ('fld', V('r'), 'b'), 'c'))),
    (Lit('A', x, y), Eq(V('l'), ('list', (x, y))), ('in', V('p'), V('l')), Eq(V('q'), Call('Size', V('l')))),
    (Lit('A', x, y), ('in', V('p'), ('list', (x, y))), ('in', V('q'), ('list', (V('p'), N(1))))),
  ]:
    yield Case('EXPR', Program([R('T', V('p'), V('q'), body=body)]), ['T'])


# ---- FUNC: functional predicates
def gen_func(full):
  F1 = [R('F', x, value=Bin('+', x, N(1)))]                                       # injectible function without body
  F2 = [R('F', x, value=y, body=(Lit('A', x, y),))]                               # multi-valued, from a table
  F3 = [R('F', x, value=Bin('*', x, N(2)), body=(Lit('B', x),))]                  # partial function
  F4 = [R('F', named={'a': x, 'b': y}, value=Bin('-', x, y))]                     # named arguments
  F5 = [R('F', x, value=N(10), body=(Lit('B', x), Cmp('<', x, N(2)))), R('F', x, value=N(20), body=(Lit('B', x), Cmp('>=', x, N(2))))]   # two rules -> not injectible
  G = [R('G', x, value=Bin('+', x, x))]
  users = []
  def fx(a): return Call('F', a)
  for name, F in (('F1', F1), ('F2', F2), ('F3', F3), ('F5', F5)):
    users.append((name, F, R('T', x, fx(x), body=(Lit('B', x),))))
    users.append((name, F, R('T', x, y, body=(Lit('B', x), Eq(y, fx(x))))))
    users.append((name, F, R('T', x, body=(Lit('B', x), Cmp('>', fx(x), N(2))))))
    users.append((name, F, R('T', x, Bin('+', fx(x), fx(y)), body=(Lit('A', x, y),))))
    users.append((name, F, R('T', x, ('if', Bin('<', x, N(2)), fx(x), N(0)), body=(Lit('B', x),))))
    users.append((name, F, R('T', x, ('list', (fx(x), x)), body=(Lit('B', x),))))
    users.append((name, F, R('T', x, fx(fx(x)), body=(Lit('B', x),))))
    users.append((name, F, R('T', x, y, body=(Lit('A', x, y), Lit('B', fx(y))))))
    users.append((name, F + G, R('T', x, Call('F', Call('G', x)), body=(Lit('B', x),))))
    users.append((name, F + G, R('T', x, Call('G', Call('F', x)), body=(Lit('B', x),))))
    users.append((name, F, R('T', x, value=fx(x), body=(Lit('B', x),))))
    users.append((name, F, R('T', x, y, body=(Lit('B', x), Lit('F', x, logica_value=y)))))
  users.append(('F4', F4, R('T', x, y, Call('F', a=x, b=y), body=(Lit('A', x, y),))))
  users.append(('F4', F4, R('T', x, y, Call('F', b=x, a=y), body=(Lit('A', x, y),))))
  users.append(('F4', F4, R('T', x, z, body=(Lit('A', x, y), Eq(z, Call('F', a=Bin('+', x, y), b=N(1)))))))
  for name, F, t in users:
    if not static_ok(F + [t], 'T'): continue
    preds = ['T'] + [p for p in ('F', 'G') if any(r.pred == p for r in F) and static_ok(F, p)]
    yield Case('FUNC', Program(F + [t]), preds)


# ---- INJ: injectible predicates, same variable names on both sides forced
def gen_inj(full):
  J = {
    'Adj': [R('J', x, y, body=(Eq(y, Bin('+', x, N(1))),))],
    'Lt': [R('J', x, y, body=(Cmp('<', x, y),))],
    'Tab': [R('J', x, y, body=(Lit('A', x, y),))],
    'TabSwap': [R('J', y, x, body=(Lit('A', x, y),))],
    'Loc': [R('J', x, y, body=(Lit('A', x, z), Lit('A', z, y)))],
    'Named': [R('J', named={'p': x, 'q': y}, body=(Lit('A', y, x),))],
    'Two': [R('J', x, y, body=(Lit('K', y, x),)), R('K', x, y, body=(Lit('A', x, z), Eq(y, Bin('+', z, x))))],
    'Const': [R('J', x, N(1), body=(Lit('B', x),))],
    'Expr': [R('J', x, Bin('+', x, y), body=(Lit('A', x, y),))],
  }
  for name, defs in J.items():
    named = name == 'Named'
    def call(a, b):
      return Lit('J', p=a, q=b) if named else Lit('J', a, b)
    callers = [
      R('T', x, y, body=(Lit('B', x), Lit('B', y), call(x, y))),
      R('T', x, y, body=(Lit('B', x), call(x, y))),
      R('T', y, x, body=(Lit('B', y), call(y, x))),
      R('T', x, z, body=(Lit('A', x, y), call(y, z))),
      R('T', x, z, body=(Lit('A', x, y), call(Bin('+', y, N(1)), z))),
      R('T', x, body=(Lit('B', x), call(x, x))),
      R('T', x, z, body=(Lit('B', x), call(x, y), call(y, z))),
      R('T', x, body=(Lit('B', x), Not(call(x, N(2))))),
      R('T', x, z, body=(Lit('B', x), Lit('B', z), ('or', ((call(x, z),), (call(z, x),))))),
      R('T', z, x, body=(Lit('A', z, x), call(N(1), x))),
    ]
    for t in callers:
      rules = defs + [t]
      if not static_ok(rules, 'T'): continue
      preds = ['T'] + [p for p in ('J', 'K') if any(r.pred == p for r in defs) and static_ok(defs, p)]
      yield Case('INJ', Program(rules), preds)


def c01_cases(thorough):
  dbs = dbs_ab(2)
  gens = [gen_cq(3 if thorough else 2), gen_cons(2 if thorough else 1), gen_disj(thorough), gen_expr(thorough), gen_func(thorough), gen_inj(thorough)]
  seen = set()
  for g in gens:
    for c in g:
      t = c.text()
      if t in seen: continue
      seen.add(t)
      c.dbs = dbs; c.fact_dbs = FACT_DBS_AB
      yield c
