"""The finite grammars ("families") of generated programs, enumerated completely up to the tier bounds.
Every generator yields semcheck.Case objects; de-duplication is by rendered text."""
import itertools
from . import lang, refsem, semcheck
from .lang import R, Rule, Lit, V, N, S, Bin, Eq, Cmp, Not, Comb, Call, Program, Aggr
from .semcheck import Case, dbs_ab, FACT_DBS_AB

x, y, z = V('x'), V('y'), V('z')
TERMS = [x, y, z, N(1)]
# families that exist to pin one recorded finding to the property it is recorded under; the metamorphic checks (C07, C11) do not re-use them
FINDING_FAMILIES = ('RECORD-FIELD-ORDER', 'FUNCTOR-GROUND-EXPLICIT', 'INJ-RECORD-PATTERN', 'PRECEDENCE')     # (PRECEDENCE programs are raw text with a separate reference rule: not rewritable)


def static_ok(rules, pred, schema='AB'):
  """range-restricted by the model's scheduler (evaluated on one-row tables)"""
  tables = {t: (cols, [tuple(1 for _ in cols)]) for t, cols in semcheck.SCHEMAS[schema].items()}
  for t in list(tables): tables['main.' + t] = tables[t]
  try:
    refsem.Evaluator(rules, tables).rows(pred)
    return True
  except refsem.Unsafe:
    return False


def first_occurrence_canonical(lits, names=('x', 'y', 'z')):
  order = []
  for l in lits:
    for _, t in l[2]:
      if t[0] == 'v' and t[1] not in order: order.append(t[1])
  return order == list(names[:len(order)])


def lits_ab():
  return [Lit('A', a, b) for a in TERMS for b in TERMS] + [Lit('B', a) for a in TERMS]


def heads_for(hv, full=True):
  """head argument lists for the bound variables hv (sorted names)"""
  vs = [V(v) for v in hv]
  out = []
  if not vs: return [((0, N(1)),), ()]
  for v in vs: out.append(((0, v),))
  pairs = [(a, b) for a in vs for b in vs if a[1] <= b[1]]
  for a, b in pairs[:4]: out.append(((0, a), (1, b)))
  out.append(((0, Bin('+', vs[0], vs[-1])),))
  if full:
    out.append((('p', vs[0]), ('q', vs[-1])))                 # named
    out.append(((0, N(1)), (1, vs[-1])))                      # constant in head
    out.append(())                                            # zero arity
    out.append(((0, vs[0]), ('p', Bin('*', vs[-1], N(2)))))   # mixed positional / named
  return out


def gen_cq(kmax, full_heads=True):
  seen = set()
  LITS = lits_ab()
  for k in range(1, kmax + 1):
    for lits in itertools.product(LITS, repeat=k):
      if not first_occurrence_canonical(lits): continue
      # conjunct multiset canonical: sorted literal tuple must be minimal under permutation for k>=2? keep all orders
      hv = sorted(lang.bvars(lits))
      for head in heads_for(hv, full_heads and k <= 2):
        r = Rule('T', head, lits)
        t = lang.rule_str(r)
        if t in seen: continue
        seen.add(t)
        yield Case('CQ', Program([r]), ['T'])


def extras():
  out = []
  for op in ('<', '!=', '>='):
    for t in (y, N(1)): out.append(Cmp(op, x, t))
  out.append(('cmp', Bin('&&', Bin('<', x, N(2)), Bin('>', y, N(1)))))
  out.append(('cmp', Bin('||', Bin('==', x, N(1)), Bin('==', y, N(1)))))
  out.append(('cmp', ('un', '!', Bin('==', x, y))))
  out.append(Eq(z, Bin('+', x, y)))
  out.append(Eq(z, Bin('*', x, N(2)), '='))
  out.append(Eq(Bin('+', x, y), z))
  out.append(Eq(z, ('if', Bin('<', x, y), x, y)))
  out.append(('in', x, ('list', (N(1), N(2)))))
  out.append(('in', z, ('list', (x, y))))
  out.append(('in', z, ('list', (x, x))))
  out.append(Eq(z, Bin('-', Bin('+', x, y), x)))
  return out


def gen_cons(kmax):
  seen = set()
  LITS = lits_ab()
  for k in range(1, kmax + 1):
    for lits in itertools.product(LITS, repeat=k):
      if not first_occurrence_canonical(lits): continue
      for extra in extras():
        for pos in ((k,) if k > 1 else (0, k)):
          body = lits[:pos] + (extra,) + lits[pos:]
          hv = sorted(lang.bvars(body))
          for head in heads_for(hv, False)[:7]:
            r = Rule('T', head, body)
            t = lang.rule_str(r)
            if t in seen: continue
            if not static_ok([r], 'T'): continue
            seen.add(t)
            yield Case('CONS', Program([r]), ['T'])


DISJ_BODIES = [
  (Lit('A', x, y),), (Lit('A', y, x),), (Lit('A', x, x), Eq(y, x)), (Lit('B', x), Lit('B', y)), (Lit('A', x, y), Lit('B', y)),
  (Lit('B', x), Eq(y, Bin('+', x, N(1)))), (Lit('A', x, y), Cmp('<', x, y)), (Lit('B', x), ('in', y, ('list', (N(1), x)))),
  (Lit('A', x, N(1)), Lit('B', y)), (Lit('B', y), Eq(x, N(2))), (Lit('A', x, z), Lit('A', z, y)), (Lit('B', x), Lit('A', y, x)),
]


def gen_disj(full):
  bodies = DISJ_BODIES if full else DISJ_BODIES[:8]
  for b1, b2 in itertools.product(bodies, repeat=2):
    yield Case('DISJ', Program([R('T', x, y, body=(('or', (b1, b2)),))]), ['T'])
    yield Case('DISJ', Program([R('T', x, y, body=b1), R('T', x, y, body=b2)]), ['T'])
  for b1, b2 in itertools.product(bodies[:6], repeat=2):
    for c3 in (Lit('B', x), Cmp('<=', x, y), Lit('A', y, z)):
      head = (x, y) if c3[1] != 'A' else (x, z)
      yield Case('DISJ', Program([R('T', *head, body=(('or', (b1, b2)), c3))]), ['T'])
      yield Case('DISJ', Program([R('T', *head, body=(c3, ('or', (b1, b2))))]), ['T'])
  # rules of one predicate that list the named arguments in different orders (the union must match columns by name)
  for b1, b2 in itertools.product(bodies[:3], repeat=2):
    yield Case('DISJ', Program([R('T', named={'a': x, 'b': y}, body=b1), R('T', named={'b': x, 'a': y}, body=b2)]), ['T'])
    yield Case('DISJ', Program([R('T', x, named={'a': y, 'b': Bin('+', x, y)}, body=b1), R('T', y, named={'b': x, 'a': N(7)}, body=b2)]), ['T'])
  yield Case('DISJ', Program([R('T', named={'a': x, 'b': y, 'c': N(1)}, body=bodies[0]), R('T', named={'c': x, 'a': y, 'b': N(2)}, body=bodies[1]), R('T', named={'b': x, 'c': y, 'a': N(3)}, body=bodies[0])]), ['T'])
  yield Case('DISJ', Program([R('T', named={'a': N(1), 'b': N(2)}), R('T', named={'b': N(3), 'a': N(4)}), R('U', x, y, body=(Lit('T', a=x, b=y),))]), ['T', 'U'])
  yield Case('DISJ', Program([R('P', named={'a': x, 'b': y}, body=bodies[0]), R('P', named={'b': x, 'a': Bin('*', y, N(10))}, body=bodies[0]), R('T', x, y, body=(Lit('P', b=y, a=x), Lit('B', x)))]), ['T', 'P'])
  # ... and a positional argument N is the named argument colN
  for b1 in bodies[:3]:
    yield Case('DISJ', Program([R('T', x, y, body=b1), R('T', named={'col1': x, 'col0': y}, body=b1)]), ['T'])
    yield Case('DISJ', Program([R('T', named={'col1': x, 'col0': y}, body=b1), R('T', x, y, body=b1)]), ['T'])
    yield Case('DISJ', Program([R('T', x, y, named={'z': N(0)}, body=b1), R('T', named={'z': N(1), 'col1': x, 'col0': y}, body=b1), R('T', y, named={'col1': N(5), 'z': x}, body=b1)]), ['T'])
  # two (three) disjunctions conjoined in one rule: the DNF is the product of the alternatives, in either conjunct order
  xs = [(Lit('B', x),), (Lit('A', x, N(1)),), (Lit('A', N(1), x),)]; ys = [(Lit('B', y),), (Lit('A', y, y),), (Lit('A', N(2), y),)]
  for (p1, p2), (q1, q2) in itertools.product(itertools.permutations(xs, 2), itertools.permutations(ys, 2)):
    yield Case('DISJ', Program([R('T', x, y, body=(('or', (p1, p2)), ('or', (q1, q2))))]), ['T'])
    if full or (p1, q1) == (xs[0], ys[0]):
      yield Case('DISJ', Program([R('T', x, y, body=(('or', (q1, q2)), Cmp('<=', x, y), ('or', (p1, p2))))]), ['T'])
      yield Case('DISJ', Program([R('T', x, y, z, body=(('or', (p1, p2)), ('or', (q1, q2)), ('or', ((Lit('B', z),), (Eq(z, N(5)),), (Lit('A', z, x),)))))]), ['T'])
  # three alternatives, three rules
  for b1, b2, b3 in itertools.product(bodies[:4], repeat=3):
    yield Case('DISJ', Program([R('T', x, y, body=(('or', (b1, b2, b3)),))]), ['T'])
    if full: yield Case('DISJ', Program([R('T', x, y, body=b1), R('T', x, y, body=b2), R('T', x, y, body=b3)]), ['T'])


# ---- EXPR: expression trees over x, y (numbers), batched per program
def num_exprs(depth):
  base = [x, y, N(1), N(2)]
  if depth == 0: return base
  sub = num_exprs(depth - 1)
  out = list(base)
  small = sub if depth == 1 else sub[:10]
  for op in ('+', '-', '*'):
    for a in small:
      for b in small: out.append(Bin(op, a, b))
  for a in small:
    out.append(('un', '-', a))
    out.append(Bin('%', Bin('+', Bin('*', a, a), N(1)), N(3)))
  return out


def bool_exprs(depth):
  ne = num_exprs(0)
  cmp = [Bin(op, a, b) for op in ('==', '!=', '<', '<=', '>', '>=') for a in ne[:3] for b in ne[:3] if a != b]
  if depth == 0: return cmp
  out = list(cmp)
  for a, b in itertools.product(cmp[:8], repeat=2):
    out.append(Bin('&&', a, b)); out.append(Bin('||', a, b))
  for a in cmp[:12]: out.append(('un', '!', a))
  return out


def all_exprs(full):
  ne1 = num_exprs(1)
  out = list(num_exprs(2 if full else 1))
  be = bool_exprs(1)
  out += be
  # if-then-else chains
  for c in be[:14]:
    for t, e in ((x, y), (N(1), Bin('+', x, y)), (Bin('*', x, y), N(0))):
      out.append(('if', c, t, e))
  for c1, c2 in itertools.product(be[:6], repeat=2):
    out.append(('if', c1, x, ('if', c2, y, N(0))))
  # the chain form `if .. then .. else if .. then .. else ..` (one implication with several branches), also over records with a field read off it
  for c1, c2 in itertools.product(be[:4], repeat=2):
    out.append(('if', c1, x, ('if', c2, y, N(0)), 'flat'))
  rflat = ('if', Bin('<', x, y), ('rec', (('a', x), ('b', S('lo')))), ('if', Bin('==', x, y), ('rec', (('a', N(7)), ('b', S('eq')))), ('rec', (('a', y), ('b', S('hi'))))), 'flat')
  out += [('fld', rflat, 'a'), ('fld', rflat, 'b'), rflat, ('if', Bin('<', x, N(2)), S('s'), ('if', Bin('<', y, N(2)), S('t'), ('if', Bin('==', x, y), S('u'), S('v'))), 'flat')]
  # strings
  sx = Call('ToString', x); sy = Call('ToString', y)
  out += [Bin('++', sx, sy), Bin('++', S('a'), sx), Bin('++', Bin('++', sx, S('-')), sy), Bin('==', sx, S('1')), Bin('==', Bin('++', sx, sy), S('12'))]
  # lists
  l1 = ('list', (x, y)); l2 = ('list', (x, y, N(1))); l3 = ('list', (Bin('+', x, y), x))
  for l in (l1, l2, l3):
    out += [l, Call('Size', l), ('elem', l, N(0)), ('elem', l, N(1)), ('inx', x, l), ('inx', N(2), l), ('elem', l, Bin('-', y, N(1)))]
  out += [('list', ()), Call('Size', ('list', ())), ('list', (S('a'), sx))]
  out += [Call('ArrayConcat', l1, l3), Call('Size', Call('ArrayConcat', l1, l2)), ('inx', y, Call('ArrayConcat', ('list', (x,)), ('list', (N(2),)))), Call('Split', Bin('++', Bin('++', sx, S(',')), sy), S(','))]
  # records
  r1 = ('rec', (('a', x), ('b', y))); r2 = ('rec', (('a', x), ('r', ('rec', (('c', y), ('d', Bin('+', x, y)))))))
  out += [r1, r2, ('fld', r1, 'a'), ('fld', r1, 'b'), ('fld', ('fld', r2, 'r'), 'd'), ('fld', r2, 'r'), Bin('+', ('fld', r1, 'a'), ('fld', ('fld', r2, 'r'), 'c')),
          ('rec', (('l', l1), ('n', N(1)))), ('fld', ('rec', (('l', l1), ('n', N(1)))), 'l'), ('list', (r1,)), ('fld', ('elem', ('list', (r1, r1)), N(1)), 'b')]
  out += [('rec', (('a', x), ('big', Bin('>', x, N(1))))), ('list', (Bin('>', x, N(1)), Bin('==', y, N(2)))), ('rec', (('s', Call('ToString', x)), ('ok', Bin('&&', Bin('<', x, y), Bin('>', y, N(1)))), ('l', ('list', (x,))))),
          ('fld', ('rec', (('a', x), ('big', Bin('>', x, N(1))))), 'big'), ('list', (('rec', (('f', Bin('<', x, y)),)),))]
  out += [('un', '-', ('un', '-', y)), Bin('+', y, ('un', '-', N(-1))), ('un', '-', N(-2)), Bin('-', x, ('un', '-', y)), Bin('*', ('un', '-', ('un', '-', x)), N(-1)), ('un', '-', Bin('-', N(0), x))]
  out += [Call('Greatest', x, y), Call('Least', x, y), Call('Greatest', x, Bin('+', y, N(1))), ('isnull', x), ('un', '!', ('isnull', x))]
  return out


def gen_expr(full, batch=16):
  es = all_exprs(full)
  seen = set(); uniq = []
  for e in es:
    k = lang.ex(e)
    if k not in seen: seen.add(k); uniq.append(e)
  for i in range(0, len(uniq), batch):
    chunk = uniq[i:i + batch]
    r = Rule('T', tuple((j, e) for j, e in enumerate(chunk)), (Lit('A', x, y),))
    yield Case('EXPR', Program([r]), ['T'], info=dict(batch=len(chunk)))
  # record-pattern unification and assignment to expressions, one per program
  for body in [
    (Lit('A', x, y), Eq(V('r'), ('rec', (('a', x), ('b', y)))), Eq(('rec', (('a', V('p')), ('b', V('q')))), V('r'))),
    (Lit('A', x, y), Eq(('rec', (('a', V('p')), ('b', V('q')))), ('rec', (('a', Bin('+', x, N(1))), ('b', y))))),
    (Lit('A', x, y), Eq(V('r'), ('rec', (('a', x), ('b', ('rec', (('c', y),)))))), Eq(V('p'), ('fld', V('r'), 'a')), Eq(V('q'), ('fld', ('fld', V('r'), 'b'), 'c'))),
    (Lit('A', x, y), Eq(V('l'), ('list', (x, y))), ('in', V('p'), V('l')), Eq(V('q'), Call('Size', V('l')))),
    (Lit('A', x, y), ('in', V('p'), ('list', (x, y))), ('in', V('q'), ('list', (V('p'), N(1))))),
    # record values that cannot be eliminated statically: elements of a list of records
    (Lit('A', x, y), ('in', V('r'), ('list', (('rec', (('a', x), ('b', y))), ('rec', (('a', y), ('b', Bin('+', x, N(10)))))))), Eq(V('p'), ('fld', V('r'), 'a')), Eq(V('q'), ('fld', V('r'), 'b'))),
    (Lit('A', x, y), ('in', V('r'), ('list', (('rec', (('a', x), ('b', ('rec', (('c', y),))))),))), Eq(V('p'), ('fld', V('r'), 'a')), Eq(V('q'), ('fld', ('fld', V('r'), 'b'), 'c'))),
    # a variable bound to a compound expression and read more than once (shared sub-tree in the compiler)
    (Lit('A', x, y), Eq(V('r'), ('if', Bin('>', x, N(1)), ('rec', (('lo', Bin('-', x, N(1))), ('hi', Bin('+', x, N(1))))), ('rec', (('lo', N(0)), ('hi', N(10)))))), Eq(V('p'), ('fld', V('r'), 'lo')), Eq(V('q'), ('fld', V('r'), 'hi'))),
    (Lit('A', x, y), Eq(V('r'), ('if', Bin('<', x, y), ('rec', (('lo', x), ('hi', y))), ('if', Bin('==', x, y), ('rec', (('lo', N(7)), ('hi', N(8)))), ('rec', (('lo', y), ('hi', x)))))), Eq(V('q'), ('fld', V('r'), 'hi')), Eq(V('p'), Bin('+', ('fld', V('r'), 'lo'), ('fld', V('r'), 'hi')))),
    (Lit('A', x, y), Eq(V('l'), ('if', Bin('>', x, N(1)), ('list', (x,)), ('list', (y, x)))), Eq(V('p'), Call('Size', V('l'))), Eq(V('q'), ('elem', V('l'), N(0)))),
    (Lit('A', x, y), Eq(V('r'), ('if', Bin('<', x, y), ('rec', (('lo', x), ('hi', y))), ('if', Bin('==', x, y), ('rec', (('lo', N(7)), ('hi', N(8)))), ('rec', (('lo', y), ('hi', x)))), 'flat')), Eq(V('q'), ('fld', V('r'), 'hi')), Eq(V('p'), ('fld', V('r'), 'lo'))),
    (Lit('A', x, y), Eq(V('r'), ('rec', (('a', Bin('+', x, y)), ('b', ('rec', (('c', y),)))))), Eq(V('p'), Bin('*', ('fld', V('r'), 'a'), ('fld', V('r'), 'a'))), Eq(V('q'), Bin('+', ('fld', ('fld', V('r'), 'b'), 'c'), ('fld', V('r'), 'a')))),
    (Lit('A', x, y), Eq(V('s'), Comb('Sum', z, (Lit('A', x, z),))), Eq(V('p'), Bin('+', V('s'), V('s'))), Eq(V('q'), ('if', Bin('>', V('s'), N(2)), V('s'), N(0)))),
    (Lit('A', x, y), Eq(V('w'), ('if', Bin('>', x, y), x, y)), Eq(V('p'), Bin('*', V('w'), V('w'))), Eq(V('q'), ('if', Bin('==', V('w'), x), V('w'), Bin('-', N(0), V('w'))))),
  ]:
    yield Case('EXPR', Program([R('T', V('p'), V('q'), body=body)]), ['T'])


# ---- FUNC: functional predicates
def gen_func(full):
  F1 = [R('F', x, value=Bin('+', x, N(1)))]                                       # injectible function without body
  F2 = [R('F', x, value=y, body=(Lit('A', x, y),))]                               # multi-valued, from a table
  F3 = [R('F', x, value=Bin('*', x, N(2)), body=(Lit('B', x),))]                  # partial function
  F4 = [R('F', named={'a': x, 'b': y}, value=Bin('-', x, y))]                     # named arguments
  F5 = [R('F', x, value=N(10), body=(Lit('B', x), Cmp('<', x, N(2)))), R('F', x, value=N(20), body=(Lit('B', x), Cmp('>=', x, N(2))))]   # two rules -> not injectible
  G = [R('G', x, value=Bin('+', x, x))]
  users = []
  def fx(a): return Call('F', a)
  for name, F in (('F1', F1), ('F2', F2), ('F3', F3), ('F5', F5)):
    users.append((name, F, R('T', x, fx(x), body=(Lit('B', x),))))
    users.append((name, F, R('T', x, y, body=(Lit('B', x), Eq(y, fx(x))))))
    users.append((name, F, R('T', x, body=(Lit('B', x), Cmp('>', fx(x), N(2))))))
    users.append((name, F, R('T', x, Bin('+', fx(x), fx(y)), body=(Lit('A', x, y),))))
    users.append((name, F, R('T', x, Bin('+', fx(x), fx(x)), body=(Lit('B', x),))))          # the same call twice: two independent conjuncts
    users.append((name, F, R('T', x, ('list', (fx(x), fx(x))), body=(Lit('B', x),))))
    users.append((name, F, R('T', x, y, body=(Lit('B', x), Eq(y, fx(x)), Cmp('<=', fx(x), y)))))
    users.append((name, F, R('T', x, ('if', Bin('<', x, N(2)), fx(x), N(0)), body=(Lit('B', x),))))
    users.append((name, F, R('T', x, ('list', (fx(x), x)), body=(Lit('B', x),))))
    users.append((name, F, R('T', x, fx(fx(x)), body=(Lit('B', x),))))
    users.append((name, F, R('T', x, y, body=(Lit('A', x, y), Lit('B', fx(y))))))
    users.append((name, F + G, R('T', x, Call('F', Call('G', x)), body=(Lit('B', x),))))
    users.append((name, F + G, R('T', x, Call('G', Call('F', x)), body=(Lit('B', x),))))
    users.append((name, F, R('T', x, value=fx(x), body=(Lit('B', x),))))
    users.append((name, F, R('T', x, y, body=(Lit('B', x), Lit('F', x, logica_value=y)))))
  users.append(('F4', F4, R('T', x, y, Call('F', a=x, b=y), body=(Lit('A', x, y),))))
  users.append(('F4', F4, R('T', x, y, Call('F', b=x, a=y), body=(Lit('A', x, y),))))
  users.append(('F4', F4, R('T', x, z, body=(Lit('A', x, y), Eq(z, Call('F', a=Bin('+', x, y), b=N(1)))))))
  for name, F, t in users:
    if not static_ok(F + [t], 'T'): continue
    preds = ['T'] + [p for p in ('F', 'G') if any(r.pred == p for r in F) and static_ok(F, p)]
    yield Case('FUNC', Program(F + [t]), preds)


# ---- INJ: injectible predicates, same variable names on both sides forced
def gen_inj(full):
  J = {
    'Adj': [R('J', x, y, body=(Eq(y, Bin('+', x, N(1))),))],
    'Lt': [R('J', x, y, body=(Cmp('<', x, y),))],
    'Tab': [R('J', x, y, body=(Lit('A', x, y),))],
    'TabSwap': [R('J', y, x, body=(Lit('A', x, y),))],
    'Loc': [R('J', x, y, body=(Lit('A', x, z), Lit('A', z, y)))],
    'Named': [R('J', named={'p': x, 'q': y}, body=(Lit('A', y, x),))],
    'Two': [R('J', x, y, body=(Lit('K', y, x),)), R('K', x, y, body=(Lit('A', x, z), Eq(y, Bin('+', z, x))))],
    'Const': [R('J', x, N(1), body=(Lit('B', x),))],
    'Expr': [R('J', x, Bin('+', x, y), body=(Lit('A', x, y),))],
    'TwoCons': [R('J', x, y, body=(Lit('A', x, y), Cmp('<=', x, y), Cmp('>', y, N(1))))],
    'ThreeCons': [R('J', x, y, body=(Lit('A', x, z), Cmp('<=', x, z), Eq(y, Bin('+', z, N(1))), Cmp('>', y, N(2)), Cmp('!=', x, y)))],
  }
  for name, defs in J.items():
    named = name == 'Named'
    def call(a, b):
      return Lit('J', p=a, q=b) if named else Lit('J', a, b)
    callers = [
      R('T', x, y, body=(Lit('B', x), Lit('B', y), call(x, y))),
      R('T', x, y, body=(Lit('B', x), call(x, y))),
      R('T', y, x, body=(Lit('B', y), call(y, x))),
      R('T', x, z, body=(Lit('A', x, y), call(y, z))),
      R('T', x, z, body=(Lit('A', x, y), call(Bin('+', y, N(1)), z))),
      R('T', x, body=(Lit('B', x), call(x, x))),
      R('T', x, z, body=(Lit('B', x), call(x, y), call(y, z))),
      R('T', x, body=(Lit('B', x), Not(call(x, N(2))))),
      R('T', x, z, body=(Lit('B', x), Lit('B', z), ('or', ((call(x, z),), (call(z, x),))))),
      R('T', z, x, body=(Lit('A', z, x), call(N(1), x))),
    ]
    for t in callers:
      rules = defs + [t]
      if not static_ok(rules, 'T'): continue
      preds = ['T'] + [p for p in ('J', 'K') if any(r.pred == p for r in defs) and static_ok(defs, p)]
      yield Case('INJ', Program(rules), preds)


# ---- WIDE: shapes beyond the small-scope grammars (one representative per dimension rather than a product):
# >= 10 columns / body literals / variables / rules / nesting levels / chained intermediate predicates
def gen_wide(full):
  vs = [V('x%d' % i) for i in range(13)]
  n = 12
  # chain join of n table literals (aliases t_10, t_11 ...), and a star of n unary literals
  chain = tuple(Lit('A', vs[i], vs[i + 1]) for i in range(n))
  yield Case('WIDE', Program([R('T', vs[0], vs[n], body=chain)]), ['T'])
  yield Case('WIDE', Program([R('T', *vs[:n + 1], body=chain)]), ['T'])
  yield Case('WIDE', Program([R('T', *reversed(vs[:n + 1]), body=chain)]), ['T'])
  star = tuple(Lit('B', v) for v in vs[:n])
  if full: yield Case('WIDE', Program([R('T', *vs[:n], body=star)]), ['T'], info='big')
  yield Case('WIDE', Program([R('T', vs[0], vs[10], vs[2], vs[11], body=star + (Cmp('<', vs[2], vs[10]), Cmp('<=', vs[11], vs[1]), Cmp('!=', vs[0], vs[9])))]), ['T'], info='big')
  # 12 positional and 12 named columns in every order of definition
  cols = [x, y, Bin('+', x, y), N(3), Bin('*', x, N(10)), Bin('-', y, x), N(6), Bin('+', y, N(7)), x, Bin('*', y, y), Bin('+', x, N(10)), Bin('+', y, N(11)), Bin('-', N(12), x)]
  yield Case('WIDE', Program([R('T', *cols, body=(Lit('A', x, y),))]), ['T'])
  yield Case('WIDE', Program([R('T', named={'a%d' % i: c for i, c in enumerate(cols)}, body=(Lit('A', x, y),))]), ['T'])
  yield Case('WIDE', Program([R('T', named={'a%d' % i: c for i, c in reversed(list(enumerate(cols)))}, body=(Lit('A', x, y),))]), ['T'])
  yield Case('WIDE', Program([R('T', *cols[:11], named={'z': x, 'a': y, 'col': Bin('+', x, y)}, body=(Lit('A', x, y),))]), ['T'])
  # a 13-column predicate read back positionally through a non-injected and an injected intermediate
  W = R('W', *cols, body=(Lit('A', x, y),))
  rd = R('T', vs[12], vs[10], vs[2], vs[1], body=(Lit('W', *vs),))
  yield Case('WIDE', Program([W, rd]), ['T', 'W'])
  yield Case('WIDE', Program([W, Ann('@NoInject(W);'), rd]), ['T', 'W'])
  for anns in ([Ann('@NoInject(W);')], []):
    yield Case('WIDE', Program([W] + anns + [R('T', vs[10], vs[11], body=(Lit('W', **{'col10': vs[10], 'col11': vs[11], 'col2': vs[2]}), Cmp('>', vs[2], N(2))))]), ['T'])
    yield Case('WIDE', Program([W] + anns + [R('T', vs[12], vs[1], body=(Lit('W', **{'col12': vs[12], 'col1': vs[1]}),))]), ['T'])
    yield Case('WIDE', Program([W] + anns + [R('T', x, body=(Lit('B', x), Lit('W', **{'col10': Bin('+', x, N(10)), 'col0': x})))]), ['T'])
  Wn = R('W', named={'f%d' % i: c for i, c in enumerate(cols)}, body=(Lit('A', x, y),))
  yield Case('WIDE', Program([Wn, R('T', vs[10], vs[2], vs[11], body=(Lit('W', f10=vs[10], f2=vs[2], f11=vs[11]),))]), ['T', 'W'])
  # records and lists with >= 10 members
  rec = ('rec', tuple(('f%d' % i, c) for i, c in enumerate(cols)))
  yield Case('WIDE', Program([R('T', x, y, rec, body=(Lit('A', x, y),))]), ['T'])
  yield Case('WIDE', Program([R('T', ('fld', V('r'), 'f10'), ('fld', V('r'), 'f2'), ('fld', V('r'), 'f12'), body=(Lit('A', x, y), Eq(V('r'), rec)))]), ['T'])
  lst = ('list', tuple(cols))
  yield Case('WIDE', Program([R('T', x, y, lst, Call('Size', lst), ('elem', lst, N(10)), ('elem', lst, N(2)), ('elem', lst, N(12)), body=(Lit('A', x, y),))]), ['T'])
  yield Case('WIDE', Program([R('T', x, y, z, body=(Lit('A', x, y), ('in', z, lst)))]), ['T'])
  yield Case('WIDE', Program([R('T', x, y, z, body=(Lit('A', x, y), ('in', z, ('list', (x, x, y, x, N(1), N(1), y)))))]), ['T'])
  # many rules / disjuncts / nested disjunction
  bodies = [(Lit('A', x, y),), (Lit('A', y, x),), (Lit('B', x), Lit('B', y)), (Lit('B', x), Eq(y, x)), (Lit('A', x, z), Lit('A', z, y)), (Lit('B', y), Eq(x, N(1))), (Lit('A', x, y), Lit('B', x))]
  yield Case('WIDE', Program([R('T', x, y, body=b) for b in bodies]), ['T'])
  yield Case('WIDE', Program([R('T', x, y, body=(('or', tuple(bodies)),))]), ['T'])
  yield Case('WIDE', Program([R('T', x, y, body=(Lit('B', x), ('or', tuple(bodies[:5]))))]), ['T'])
  nest = ('or', ((Lit('A', x, y),), (Lit('B', x), ('or', ((Lit('B', y), Cmp('<', x, y)), (Lit('A', y, z), ('or', ((Lit('B', z),), (Eq(z, x),)))))))))
  yield Case('WIDE', Program([R('T', x, y, body=(nest,))]), ['T'])
  yield Case('WIDE', Program([R('T', x, y, body=(('or', ((Lit('A', x, y),), (Lit('A', y, x),))), ('or', ((Lit('B', x),), (Lit('B', y),))), ('or', ((Cmp('<', x, N(2)),), (Cmp('>=', y, N(2)),)))))]), ['T'])
  # deep nesting of values
  deep = ('rec', (('a', ('rec', (('b', ('rec', (('c', ('rec', (('d', x), ('e', ('list', (y, y)))))),))),))),))
  yield Case('WIDE', Program([R('T', x, deep, ('fld', ('fld', ('fld', ('fld', deep, 'a'), 'b'), 'c'), 'd'), body=(Lit('A', x, y),))]), ['T'])
  ll = ('list', (('list', (x, y)), ('list', (y,)), ('list', ())))
  yield Case('WIDE', Program([R('T', x, y, ll, ('elem', ('elem', ll, N(0)), N(1)), Call('Size', ('elem', ll, N(2))), body=(Lit('A', x, y),))]), ['T'])
  yield Case('WIDE', Program([R('T', x, y, V('e'), body=(Lit('A', x, y), ('in', V('l'), ll), ('in', V('e'), V('l'))))]), ['T'])
  ifc = x
  for i in range(5): ifc = ('if', Bin('==', Bin('+', x, y), N(i + 1)), N(10 * i), ifc)
  yield Case('WIDE', Program([R('T', x, y, ifc, body=(Lit('A', x, y),))]), ['T'])
  e = x
  for i in range(12): e = Bin('+' if i % 2 else '*', e, (y if i % 3 else N(i)))
  yield Case('WIDE', Program([R('T', x, y, e, body=(Lit('A', x, y),))]), ['T'])
  # chains of 6 intermediate predicates: injected, non-injected, functional, mixed with projection and swap
  def chain_rules(k, anns=()):
    rs = [R('P0', x, y, body=(Lit('A', x, y),))]
    for i in range(1, k):
      rs.append(R('P%d' % i, y, x, body=(Lit('P%d' % (i - 1), x, y),)) if i % 2 else R('P%d' % i, x, Bin('+', y, N(1)), body=(Lit('P%d' % (i - 1), x, y), Lit('B', x))))
    return rs + [Ann(a) for a in anns]
  for anns in ((), ('@NoInject(P2);',), ('@NoInject(P1);', '@NoInject(P3);', '@NoInject(P4);'), ('@With(P2);', '@NoInject(P2);')):
    yield Case('WIDE', Program(chain_rules(6, anns) + [R('T', x, y, body=(Lit('P5', x, y),))]), ['T', 'P5', 'P3'])
  yield Case('WIDE', Program(chain_rules(6) + [R('T', x, z, body=(Lit('P5', x, y), Lit('P4', y, z), Lit('P1', z, x)))]), ['T'])
  fs = [R('F0', x, value=Bin('+', x, N(1)))] + [R('F%d' % i, x, value=Bin('*' if i % 2 else '+', Call('F%d' % (i - 1), x), N(2))) for i in range(1, 6)]
  yield Case('WIDE', Program(fs + [R('T', x, Call('F5', x), Call('F2', Call('F3', x)), body=(Lit('B', x),))]), ['T'])
  # 11 predicates used side by side (generated names beyond one digit)
  many = [R('Q%d' % i, x, Bin('+', y, N(i)), body=(Lit('A', x, y),)) for i in range(11)]
  yield Case('WIDE', Program(many + [R('T', x, *vs[:11], body=tuple(Lit('Q%d' % i, x, vs[i]) for i in range(11)))]), ['T'])
  yield Case('WIDE', Program(many + [Ann('@NoInject(Q%d);' % i) for i in (1, 10)] + [R('T', x, vs[1], vs[10], body=(Lit('Q1', x, vs[1]), Lit('Q10', x, vs[10]), Lit('Q2', x, vs[2]), Cmp('<', vs[2], vs[10])))]), ['T', 'Q10'])


def gen_eqforms():
  """comparisons written with `==` at proposition level whose left side is a compound expression (C11 rewrites them to `=`)"""
  lefts = [Bin('+', x, N(1)), Bin('*', x, N(2)), Bin('-', x, y), Call('ToString', x), ('list', (x,)), ('if', Bin('<', x, y), x, y), Bin('++', Call('ToString', x), S('a')), ('fld', ('rec', (('a', x),)), 'a'), ('un', '-', x)]
  rights = [y, Bin('+', y, N(0)), N(2), Call('ToString', y), ('list', (y,)), y, S('1a'), y, Bin('-', N(0), y)]
  for l, r in zip(lefts, rights):
    yield Case('EQFORMS', Program([R('T', x, y, body=(Lit('A', x, y), Cmp('==', l, r)))]), ['T'])
    yield Case('EQFORMS', Program([R('T', x, y, body=(Cmp('==', l, r), Lit('A', x, y)))]), ['T'])
    yield Case('EQFORMS', Program([R('T', x, body=(Lit('B', x), Not(Lit('A', x, y), Cmp('==', l, r))))]), ['T'])


def gen_precedence():
  """expressions written WITHOUT the parentheses the printer normally adds: the program text is raw, the reference rule is the
  fully parenthesised reading of ordinary arithmetic (same-level operators associate to the left, unary minus binds tightest)"""
  forms = [
    ('x - y + 1', Bin('+', Bin('-', x, y), N(1))), ('x + y - 1', Bin('-', Bin('+', x, y), N(1))), ('x - y - 1', Bin('-', Bin('-', x, y), N(1))), ('-x + y', Bin('+', ('un', '-', x), y)),
    ('-x - y', Bin('-', ('un', '-', x), y)), ('x + y * 2', Bin('+', x, Bin('*', y, N(2)))), ('x * y + 2', Bin('+', Bin('*', x, y), N(2))), ('x - y * 2', Bin('-', x, Bin('*', y, N(2)))),
    ('-x * y - 1', Bin('-', Bin('*', ('un', '-', x), y), N(1))), ('x + 1 < y * 2', Bin('<', Bin('+', x, N(1)), Bin('*', y, N(2)))), ('x < y && y < 3 && x == 1', Bin('&&', Bin('&&', Bin('<', x, y), Bin('<', y, N(3))), Bin('==', x, N(1)))),
    ('x == 1 || x == 2 || y == 2', Bin('||', Bin('||', Bin('==', x, N(1)), Bin('==', x, N(2))), Bin('==', y, N(2)))), ('!(x == 1) && y == 2', Bin('&&', ('un', '!', Bin('==', x, N(1))), Bin('==', y, N(2)))),
    ('x - (y - 1)', Bin('-', x, Bin('-', y, N(1)))), ('-(x + 1)', ('un', '-', Bin('+', x, N(1)))), ('-(x - y)', ('un', '-', Bin('-', x, y))), ('!(x < y || y < 2)', ('un', '!', Bin('||', Bin('<', x, y), Bin('<', y, N(2))))),
    ('ToString(x) ++ "-" ++ ToString(y)', Bin('++', Bin('++', Call('ToString', x), S('-')), Call('ToString', y))), ('x + y + x - y - x', Bin('-', Bin('-', Bin('+', Bin('+', x, y), x), y), x)),
  ]
  for i in range(0, len(forms), 6):
    chunk = forms[i:i + 6]
    raw = 'T(%s) :- A(x, y);' % ', '.join(t for t, _ in chunk)
    ref = R('T', *[e for _, e in chunk], body=(Lit('A', x, y),))
    c = Case('PRECEDENCE', Program([Ann(raw)]), ['T']); c.prepared = [ref]
    yield c
  for t, e in forms[:9]:
    c = Case('PRECEDENCE', Program([Ann('T(x, y) :- A(x, y), z == %s, z > 0;' % t)]), ['T']); c.prepared = [R('T', x, y, body=(Lit('A', x, y), Eq(z, e), Cmp('>', z, N(0))))]
    yield c
  for t, e in forms[9:13]:
    c = Case('PRECEDENCE', Program([Ann('T(x, y) :- A(x, y), %s;' % t)]), ['T']); c.prepared = [R('T', x, y, body=(Lit('A', x, y), ('cmp', e)))]
    yield c


def gen_recpattern():
  p_, q_, r_ = V('p'), V('q'), V('r')
  pat = ('rec', (('a', p_), ('b', q_)))
  inner = ('rec', (('a', x), ('b', y)))
  bodies = [
    (Lit('A', x, y), Eq(r_, ('rec', (('p', inner), ('n', N(1))))), Eq(('fld', r_, 'p'), pat)),
    (Lit('A', x, y), Eq(V('l'), ('list', (inner, inner))), Eq(('elem', V('l'), N(1)), pat)),
    (Lit('A', x, y), Eq(('if', Bin('<', x, y), inner, ('rec', (('a', y), ('b', x)))), pat)),
    (Lit('A', x, y), Eq(pat, ('fld', ('rec', (('p', inner),)), 'p'))),
    (Lit('A', x, y), Eq(inner, pat)),
  ]
  for b in bodies:
    yield Case('EQFORMS', Program([R('T', p_, q_, body=b)]), ['T'])
    yield Case('EQFORMS', Program([R('T', p_, q_, body=b[:1] + b[1:][::-1])]), ['T'])


def gen_inj_record_pattern():
  """an injectible predicate that destructures a record by a pattern, used twice in one rule (finding F47) and once (fine)"""
  r_ = V('r')
  Rr = [R('Rr', ('rec', (('a', x), ('b', y))), body=(Lit('A', x, y),)), Ann('@NoInject(Rr);')]
  Q = R('Q', y, body=(Lit('Rr', r_), Eq(('rec', (('a', x), ('b', z))), r_), Eq(y, Bin('+', x, z))))
  yield Case('INJ-RECORD-PATTERN', Program(Rr + [Q, R('T', V('u'), V('v'), body=(Lit('Q', V('u')), Lit('Q', V('v'))))]), ['T'])
  yield Case('INJ-RECORD-PATTERN', Program(Rr + [Q, R('T', V('u'), body=(Lit('Q', V('u')), Lit('B', V('u'))))]), ['T'])
  yield Case('INJ', Program(Rr + [Q]), ['Q'])
  yield Case('INJ', Program(Rr + [Q, Ann('@NoInject(Q);'), R('T', V('u'), V('v'), body=(Lit('Q', V('u')), Lit('Q', V('v'))))]), ['T'])
  Q2 = R('Q', y, body=(Lit('Rr', r_), Eq(x, ('fld', r_, 'a')), Eq(y, Bin('+', x, N(1)))))
  yield Case('INJ', Program(Rr + [Q2, R('T', V('u'), V('v'), body=(Lit('Q', V('u')), Lit('Q', V('v'))))]), ['T'])


def gen_reccol():
  Rp = [R('Rp', x, ('rec', (('a', x), ('b', y))), body=(Lit('A', x, y),)), Ann('@NoInject(Rp);')]
  yield Case('EXPR', Program(Rp + [R('T', V('p'), V('q'), body=(Lit('Rp', x, V('r')), Eq(V('p'), ('fld', V('r'), 'a')), Eq(V('q'), ('fld', V('r'), 'b'))))]), ['T', 'Rp'])
  yield Case('EXPR', Program(Rp + [R('T', x, ('fld', V('r'), 'b'), body=(Lit('Rp', x, V('r')), Cmp('>', ('fld', V('r'), 'a'), N(1))))]), ['T'])
  # the same record written with its fields in different orders: one value
  rab = ('rec', (('a', x), ('b', y))); rba = ('rec', (('b', y), ('a', x)))
  yield Case('RECORD-FIELD-ORDER', Program([R('T', x, body=(Lit('A', x, y), Cmp('==', rab, rba)))]), ['T'])
  yield Case('RECORD-FIELD-ORDER', Program([R('T', x, V('r'), body=(Lit('A', x, y), Eq(V('r'), rab), Eq(V('r'), rba)))]), ['T'])
  yield Case('RECORD-FIELD-ORDER', Program([R('T', V('r'), body=(('or', ((Lit('A', x, y), Eq(V('r'), rab)), (Lit('A', x, y), Eq(V('r'), rba)))),), distinct=True)]), ['T'])
  yield Case('RECORD-FIELD-ORDER', Program([R('P', named={'r': rab}, body=(Lit('A', x, y),)), R('P', named={'r': rba}, body=(Lit('A', x, y),)), R('T', V('r'), body=(Lit('P', r=V('r')),), distinct=True), R('U', lang.Aggr('Count', V('r')), body=(Lit('P', r=V('r')),), distinct=True)]), ['T', 'U'], info='keyless')
  # two levels of record destructuring ahead of the literal that binds the outer record, and behind it
  Rn = [R('Rn', x, ('rec', (('b', ('rec', (('a', x), ('c', y)))), ('n', y))), body=(Lit('A', x, y),)), Ann('@NoInject(Rn);')]
  q_, p_, rec_, outer_ = V('q'), V('p'), V('rec'), V('outer')
  parts = (Eq(q_, Bin('+', p_, N(1))), Eq(('rec', (('a', p_), ('c', z))), rec_), Eq(('rec', (('b', rec_), ('n', V('m')))), outer_), Lit('Rn', x, outer_))
  for order in ((0, 1, 2, 3), (3, 2, 1, 0), (1, 2, 3, 0), (2, 0, 3, 1)):
    yield Case('EXPR', Program(Rn + [R('T', x, q_, z, body=tuple(parts[i] for i in order))]), ['T'])
  # the same against a predicate given by one fact (injected: the outer record is a literal of the caller)
  Rc = [R('Rc', ('rec', (('b', ('rec', (('a', N(1)), ('c', N(2))))), ('n', N(3)))))]
  parts = (Eq(q_, Bin('+', p_, N(1))), Eq(('rec', (('a', p_), ('c', z))), rec_), Eq(('rec', (('b', rec_), ('n', V('m')))), outer_), Lit('Rc', outer_))
  for order in ((0, 1, 2, 3), (3, 2, 1, 0), (1, 2, 3, 0), (2, 0, 3, 1), (0, 2, 1, 3)):
    yield Case('EXPR', Program(Rc + [R('T', q_, z, body=tuple(parts[i] for i in order) + (Lit('B', z),))]), ['T'])
  Lp = [R('Lp', x, ('list', (x, y)), body=(Lit('A', x, y),)), Ann('@NoInject(Lp);')]
  yield Case('EXPR', Program(Lp + [R('T', x, V('e'), Call('Size', V('l')), body=(Lit('Lp', x, V('l')), ('in', V('e'), V('l'))))]), ['T', 'Lp'])


def gen_str(full, agg=False):
  """string- and boolean-typed columns (the other families are numeric)"""
  s1, t1, b1 = V('s'), V('t'), V('b')
  sx = Call('ToString', x)
  progs = [
    R('T', s1, body=(Lit('S', s1),)),
    R('T', Bin('++', s1, S('x')), body=(Lit('S', s1),)),
    R('T', s1, t1, body=(Lit('S', s1), Lit('S', t1), Cmp('<', s1, t1))),
    R('T', s1, t1, body=(Lit('S', s1), Lit('S', t1), Cmp('!=', s1, t1))),
    R('T', x, s1, body=(Lit('B', x), Lit('S', s1))),
    R('T', x, Bin('++', s1, sx), body=(Lit('B', x), Lit('S', s1))),
    R('T', s1, body=(Lit('S', s1), ('in', s1, ('list', (S('a'), S('c')))))),
    R('T', s1, body=(Lit('S', s1), Cmp('==', s1, S('a')))),
    R('T', s1, body=(Lit('S', s1), Not(Lit('S', Bin('++', s1, S('')))))),
    R('T', s1, body=(Lit('S', s1), Not(Cmp('==', s1, S('b'))))),
    R('T', x, ('if', Bin('<', x, y), S('lo'), S('hi')), body=(Lit('A', x, y),)),
    R('T', x, Bin('<', x, y), body=(Lit('A', x, y),)),
    R('T', x, b1, body=(Lit('A', x, y), Eq(b1, Bin('<', x, y)))),
    R('T', x, body=(Lit('A', x, y), Eq(b1, Bin('<=', x, y)), Cmp('==', b1, ('b', True)))),
    R('T', x, Bin('&&', Bin('<', x, y), Bin('==', s1, S('a'))), body=(Lit('A', x, y), Lit('S', s1))),
    R('T', ('rec', (('n', x), ('s', s1))), body=(Lit('B', x), Lit('S', s1))),
    R('T', ('list', (s1, S('z'))), body=(Lit('S', s1),)),
    R('T', s1, Call('Size', ('list', (s1, s1))), body=(Lit('S', s1),)),
    R('T', Aggr('Count', s1), body=(Lit('S', s1),), distinct=True),
    R('T', Aggr('Max', s1), Aggr('Min', s1), body=(Lit('S', s1),), distinct=True),
    R('T', s1, Aggr('Sum', N(1)), body=(Lit('S', s1),), distinct=True),
    R('T', x, Aggr('List', s1), body=(Lit('B', x), Lit('S', s1)), distinct=True),
    R('T', x, Aggr('ArgMax', arrow(s1, s1)), body=(Lit('B', x), Lit('S', s1)), distinct=True),
    R('T', x, V('l'), body=(Lit('B', x), Eq(V('l'), Comb('List', s1, (Lit('S', s1),))))),
    R('T', x, V('c'), body=(Lit('B', x), Eq(V('c'), Comb('Count', s1, (Lit('S', s1), Cmp('!=', s1, sx)))))),
    R('T', s1, body=(Lit('S', s1),), distinct=True),
    R('T', s1, body=(('or', ((Lit('S', s1),), (Lit('S', s1), Cmp('==', s1, S('a'))))),)),
  ]
  for name in ('col0', 'col1', 'value', 'x', 'A', 't_0', 'logica_value', 'S'):
    progs += [
      R('T', x, S(name), body=(Lit('A', x, y),)),
      R('T', x, s1, body=(Lit('A', x, y), Eq(s1, S(name)))),
      R('T', x, body=(Lit('A', x, y), Cmp('!=', Bin('++', S(name), S('')), S(name)))),
      R('T', s1, Bin('==', s1, S(name)), body=(Lit('S', s1),)),
      R('T', x, s1, body=(Lit('B', x), ('in', s1, ('list', (S(name), S('b')))))),
      R('T', x, value=S(name), body=(Lit('B', x),)),
    ]
  for r in progs:
    is_agg = r.is_agg() or r.distinct or 'Comb' in repr(r.body) or "'comb'" in repr(r.body)
    if bool(is_agg) != bool(agg): continue
    yield Case('STR', Program([r]), ['T'], schema='ABS', info='keyless' if (r.distinct and r.args and all(e[0] == 'aggr' for _, e in r.args)) else None)
  if agg: return
  F = R('F', s1, value=Bin('++', s1, S('!')))
  yield Case('STR', Program([F, R('T', Call('F', s1), body=(Lit('S', s1),))]), ['T'], schema='ABS')
  J = R('J', s1, t1, body=(Lit('S', s1), Eq(t1, Bin('++', s1, s1))))
  yield Case('STR', Program([J, R('T', s1, t1, body=(Lit('J', s1, t1),))]), ['T', 'J'], schema='ABS')
  yield Case('STR', Program([J, R('T', t1, body=(Lit('S', s1), Lit('J', s1, t1), Cmp('>', t1, S('aa'))))]), ['T'], schema='ABS')


def val_dbs():
  """values outside {1,2}: zero, negative and two-digit numbers (text order differs from numeric order), a fraction"""
  return dbs_ab(1, vals=(-1, 0, 10)) + dbs_ab(2, vals=(2, 10)) + dbs_ab(1, vals=(0.5, 2))


def c01_cases(thorough):
  dbs = dbs_ab(2) + val_dbs()
  dbs3 = dbs_ab(3) if thorough else None      # thorough: all multisets of <=3 rows per table (35 x 10 = 350 databases) for the smaller families
  gens = [gen_cq(3 if thorough else 2), gen_cons(2 if thorough else 1), gen_disj(thorough), gen_expr(thorough), gen_reccol(), gen_func(thorough), gen_inj(thorough), gen_eqforms(), gen_recpattern(), gen_precedence(), gen_inj_record_pattern()]
  seen = set()
  for g in gens:
    for c in g:
      t = c.text()
      if t in seen: continue
      seen.add(t)
      c.dbs = (dbs3 + val_dbs()) if (thorough and c.family in ('CONS', 'DISJ', 'EXPR', 'FUNC', 'INJ')) else dbs; c.fact_dbs = FACT_DBS_AB
      yield c
  for c in gen_str(thorough):
    c.dbs = semcheck.dbs_abs(); c.fact_dbs = semcheck.FACT_DBS_ABS
    yield c
  for c in gen_wide(thorough):
    c.dbs = dbs_ab(2); c.fact_dbs = FACT_DBS_AB[:1] if c.info == 'big' else FACT_DBS_AB      # the 12-fold product over 3 rows is 531 441 rows
    yield c


# ======================================================================================== C02 families
AGG_OPS = ['Sum', 'Min', 'Max', 'Count', 'List', 'Set', 'Avg']
AGG_BODIES = [
  (Lit('A', x, y),), (Lit('A', x, y), Lit('B', y)), (Lit('A', x, y), Lit('A', y, z)), (Lit('A', x, y), Not(Lit('B', x))),
  (Lit('B', x), ('in', y, ('list', (x, N(1))))), (Lit('A', y, x),), (Lit('A', x, y), Cmp('<', x, N(2))), (Lit('B', x), Lit('B', y)),
]


def arrow(a, b): return ('arrow', a, b)


def gen_aggh(full):
  """predicate-level aggregation"""
  bodies = AGG_BODIES if full else AGG_BODIES[:6]
  exprs = [y, Bin('+', x, y), N(1)]
  for body in bodies:
    for op in AGG_OPS:
      for e in exprs:
        yield Case('AGGH', Program([R('T', x, Aggr(op, e), body=body, distinct=True)]), ['T'])
        yield Case('AGGH', Program([R('T', Aggr(op, e), body=body, distinct=True)]), ['T'], info='keyless')
        yield Case('AGGH', Program([R('T', x, y, Aggr(op, e), body=body, distinct=True)]), ['T'])
        yield Case('AGGH', Program([R('T', Bin('+', x, N(1)), Aggr(op, e), body=body, distinct=True)]), ['T'])
        yield Case('AGGH', Program([R('T', x, value=Aggr(op, e), body=body)]), ['T'])                      # T(x) Op= e
        yield Case('AGGH', Program([R('T', x, named={'k': y, 's': Aggr(op, e)}, body=body, distinct=True)]), ['T'])   # positional and named grouping keys mixed
        yield Case('AGGH', Program([R('T', x, Aggr(op, e), Aggr('Max', y), body=body, distinct=True)]), ['T'])
        yield Case('AGGH', Program([R('T', x, named={'s': Aggr(op, e), 'm': Aggr('Min', Bin('*', y, N(2)))}, body=body, distinct=True)]), ['T'])
    for op in ('ArgMin', 'ArgMax'):
      for e in (arrow(y, x), arrow(y, y), arrow(x, Bin('+', x, y)), arrow(Bin('+', x, y), y)):
        yield Case('AGGH', Program([R('T', x, Aggr(op, e), body=body, distinct=True)]), ['T'])
        yield Case('AGGH', Program([R('T', Aggr(op, e), body=body, distinct=True)]), ['T'], info='keyless')
        yield Case('AGGH', Program([R('T', x, value=Aggr(op, e), body=body)]), ['T'])
    # K-best aggregates through a user-defined aggregator (the documented idiom)
    for opk, k in (('ArgMax2', 2), ('ArgMin2', 2), ('ArgMax3', 3)):
      dfn = Ann('%s(a) = %sK(a, %d);' % (opk, opk[:6], k))
      yield Case('AGGH', Program([dfn, R('T', x, Aggr(opk, arrow(y, y)), body=body, distinct=True)]), ['T'])
      yield Case('AGGH', Program([dfn, R('T', Aggr(opk, arrow(x, Bin('+', x, y))), body=body, distinct=True)]), ['T'], info='keyless')
    yield Case('AGGH', Program([R('T', x, named={'k': y}, body=body, distinct=True)]), ['T'])
    yield Case('AGGH', Program([R('T', N(7), S('k'), body=body, distinct=True)]), ['T'])                      # all keys constant
    yield Case('AGGH', Program([R('T', N(7), Aggr('Sum', y), body=body, distinct=True)]), ['T'])
    yield Case('AGGH', Program([R('T', S('k'), value=Aggr('Max', y), body=body)]), ['T'])
    yield Case('AGGH', Program([R('T', z, Aggr('Count', y), body=tuple(body) + (Eq(V('z'), N(3)),), distinct=True)]), ['T']) if 'z' not in lang.bvars(body) else None
    yield Case('AGGH', Program([R('T', x, y, body=body, distinct=True)]), ['T'])                            # plain distinct
    yield Case('AGGH', Program([R('T', x, body=body, distinct=True)]), ['T'])
    yield Case('AGGH', Program([R('T', Bin('+', x, y), body=body, distinct=True)]), ['T'])
  # ArgMax / ArgMin next to other aggregates where the arrow's value is null for every row of some group (rows must not be dropped before grouping)
  null_groups = [{'A': [(1, None), (2, 5)], 'B': [(1,)]}, {'A': [(1, None), (2, 1), (2, 2)], 'B': []}, {'A': [(3, None)], 'B': [(1,)]}]
  for op in ('ArgMax', 'ArgMin'):
    c = Case('AGGH', Program([R('T', x, Aggr(op, arrow(x, y)), Aggr('Count', x), Aggr('Sum', N(1)), body=(Lit('A', x, y),), distinct=True)]), ['T'])
    c.own_dbs = null_groups
    yield c
    c = Case('AGGH', Program([R('T', x, named={'a': Aggr(op, arrow(Bin('+', x, N(1)), y)), 'l': Aggr('List', x)}, body=(Lit('A', x, y),), distinct=True)]), ['T'])
    c.own_dbs = null_groups
    yield c
  # multi-body aggregation: all pairs of bodies, one signature
  for b1, b2 in itertools.product(bodies[:6], repeat=2):
    for op in ('Sum', 'Max', 'Count', 'List') if full else ('Sum', 'Max'):
      yield Case('AGGH', Program([R('T', x, Aggr(op, y), body=b1, distinct=True), R('T', x, Aggr(op, y), body=b2, distinct=True)]), ['T'], info='multibody')
      yield Case('AGGH', Program([R('T', x, value=Aggr(op, y), body=b1), R('T', x, value=Aggr(op, Bin('+', y, N(1))), body=b2)]), ['T'], info='multibody')
    yield Case('AGGH', Program([R('T', x, body=b1, distinct=True), R('T', y, body=b2, distinct=True)]), ['T'], info='multibody')
    yield Case('AGGH', Program([R('T', Aggr('Sum', y), body=b1, distinct=True), R('T', Aggr('Sum', x), body=b2, distinct=True)]), ['T'], info='keyless')
    yield Case('AGGH', Program([R('T', x, Aggr('Min', y), Aggr('Sum', N(1)), body=b1, distinct=True), R('T', x, Aggr('Min', x), Aggr('Sum', y), body=b2, distinct=True)]), ['T'], info='multibody')
  # a consumer of an aggregating predicate
  for op in ('Sum', 'Count', 'Max'):
    P = R('P', x, Aggr(op, y), body=(Lit('A', x, y),), distinct=True)
    yield Case('AGGH', Program([P, R('T', x, s_, body=(Lit('P', x, s_),))]), ['T', 'P'])
    yield Case('AGGH', Program([P, R('T', x, s_, body=(Lit('B', x), Lit('P', x, s_), Cmp('>', s_, N(1))))]), ['T'])
    yield Case('AGGH', Program([P, R('T', Aggr('Sum', s_), body=(Lit('P', x, s_),), distinct=True)]), ['T'], info='keyless')


s_ = V('s'); t_ = V('t'); u_ = V('u')
AGGE_INNER = [
  (Lit('A', x, y),), (Lit('A', y, x),), (Lit('A', x, y), Lit('B', y)), (Lit('A', x, y), Cmp('<', y, N(2))),
  (Lit('A', y, z), Lit('B', z)), (Lit('A', y, y),), (Lit('A', x, y), Not(Lit('B', y))), (('in', y, ('list', (x, N(1), N(1)))),),
]


def comb_forms(var, op, e, body):
  """the three syntaxes of an aggregating expression bound to var"""
  return [Eq(var, Comb(op, e, body, 0)), Eq(var, Comb(op, e, body, 1)), ('aggeq', var[1], op, e, tuple(body)), Eq(var, Comb(op, e, body, 0), '=')]


def gen_agge(full):
  inner = AGGE_INNER if full else AGGE_INNER[:6]
  for ib in inner:
    for op in AGG_OPS:
      for e in (y, Bin('+', x, y), N(1)):
        for form in comb_forms(s_, op, e, ib)[:(4 if full else 3)]:
          yield Case('AGGE', Program([R('T', x, s_, body=(Lit('B', x), form))]), ['T'])
    for op in ('ArgMin', 'ArgMax'):
      yield Case('AGGE', Program([R('T', x, s_, body=(Lit('B', x), Eq(s_, Comb(op, arrow(y, y), ib))))]), ['T'])
  # zero, one, two correlated variables
  for op in ('Sum', 'Count', 'List', 'Max'):
    yield Case('AGGE', Program([R('T', x, s_, body=(Lit('B', x), Eq(s_, Comb(op, z, (Lit('A', z, V('w')),)))))]), ['T'])               # uncorrelated
    yield Case('AGGE', Program([R('T', x, y, s_, body=(Lit('A', x, y), Eq(s_, Comb(op, z, (Lit('A', x, z), Cmp('<=', z, y))))))]), ['T'])   # two correlated
    yield Case('AGGE', Program([R('T', x, y, s_, body=(Lit('A', x, y), Eq(s_, Comb(op, y, (Lit('A', x, y),)))))]), ['T'])                 # both outer (Appendix A)
    yield Case('AGGE', Program([R('T', s_, body=(Eq(s_, Comb(op, Bin('+', x, y), (Lit('A', x, y),))),))]), ['T'])                             # no outer literal
  # two sibling combines with the same local variable name
  pairs = list(itertools.product(inner[:5], repeat=2))
  for i1, i2 in pairs:
    for op1, op2 in (('Sum', 'Max'), ('Count', 'Min'), ('List', 'Sum')):
      yield Case('AGGE', Program([R('T', x, s_, t_, body=(Lit('B', x), Eq(s_, Comb(op1, y, i1)), Eq(t_, Comb(op2, y, i2))))]), ['T'])
  # nested combines
  for ib in inner[:4]:
    for op in ('Sum', 'Max'):
      yield Case('AGGE', Program([R('T', x, s_, body=(Lit('B', x), Eq(s_, Comb(op, Bin('+', y, u_), (Lit('A', x, y), Eq(u_, Comb('Sum', z, (Lit('A', y, z),))))))))]), ['T'])
      yield Case('AGGE', Program([R('T', x, s_, body=(Lit('B', x), Eq(s_, Comb(op, u_, tuple(ib) + (Eq(u_, Comb('Max', y, (Lit('A', y, x),))),)))))]), ['T'])
      yield Case('AGGE', Program([R('T', x, s_, body=(Lit('B', x), Eq(s_, Comb(op, Bin('+', y, Comb('Sum', y, (Lit('A', y, N(1)),))), tuple(ib)))))]), ['T'])
      yield Case('AGGE', Program([R('T', s_, body=(Eq(s_, Comb(op, Bin('+', y, Comb('Sum', y, (Lit('A', y, N(1)),))), (Lit('A', x, y),))),))]), ['T'])
  # combine in head expression, in if, over in, in comparison
  for ib in inner[:5]:
    yield Case('AGGE', Program([R('T', x, Comb('Sum', y, ib), body=(Lit('B', x),))]), ['T'])
    yield Case('AGGE', Program([R('T', x, Bin('+', Comb('Count', y, ib), N(1)), body=(Lit('B', x),))]), ['T'])
    yield Case('AGGE', Program([R('T', x, ('if', Bin('>', Comb('Count', y, ib), N(0)), N(1), N(0)), body=(Lit('B', x),))]), ['T'])
    yield Case('AGGE', Program([R('T', x, body=(Lit('B', x), Cmp('>', Comb('Sum', y, ib), N(1))))]), ['T'])
    yield Case('AGGE', Program([R('T', x, body=(Lit('B', x), ('cmp', ('isnull', Comb('Max', y, ib)))))]), ['T'])
    yield Case('AGGE', Program([R('T', x, value=Comb('Max', y, ib), body=(Lit('B', x),))]), ['T'])
  yield Case('AGGE', Program([R('T', x, s_, body=(Lit('B', x), Eq(s_, Comb('Sum', y, (('in', y, ('list', (x, N(1), N(2)))),)))))]), ['T'])
  yield Case('AGGE', Program([R('T', x, s_, body=(Lit('B', x), Eq(s_, Comb('List', y, (('in', y, ('list', (x, N(1)))), Cmp('>', y, N(1)))))))]), ['T'])
  # composite values (records, lists) collected by an aggregating expression: the same list of values as the predicate-level aggregation gives
  recv = ('rec', (('v', y), ('k', x)))
  for form in comb_forms(s_, 'List', recv, (Lit('A', x, y),)):
    yield Case('AGGE', Program([R('T', x, s_, body=(Lit('B', x), form))]), ['T'])
  yield Case('AGGE', Program([R('T', x, s_, body=(Lit('B', x), Eq(s_, Comb('List', ('list', (y, x)), (Lit('A', x, y),)))))]), ['T'])
  yield Case('AGGH', Program([R('T', x, Aggr('List', recv), body=(Lit('A', x, y),), distinct=True)]), ['T'])
  # a schema-qualified table (alias made from a sanitised name) in the outer body and again inside a correlated aggregating expression / negation
  yield Case('AGGE', Program([R('T', x, y, s_, body=(Lit('main.A', x, y), Eq(s_, Comb('Sum', z, (Lit('main.A', x, z),)))))]), ['T'])
  yield Case('AGGE', Program([R('T', x, y, body=(Lit('main.A', x, y), Not(Lit('main.A', y, z), Cmp('>', z, x))))]), ['T'])
  yield Case('AGGE', Program([R('T', x, s_, body=(Lit('main.B', x), Eq(s_, Comb('Count', y, (Lit('main.A', x, y), Not(Lit('main.B', y)))))))]), ['T'])
  # an injectible function whose value is an aggregating expression, used twice in one rule, one use feeding the other
  Fs = R('Fs', x, value=Comb('Sum', y, (Lit('A', x, y),)))
  Fc = R('Fc', x, value=Comb('Count', y, (Lit('A', y, x),)))
  yield Case('AGGE', Program([Fs, R('T', x, Call('Fs', Call('Fs', x)), body=(Lit('B', x),))]), ['T'])
  yield Case('AGGE', Program([Fs, R('T', x, V('a'), V('b'), body=(Lit('B', x), Eq(V('a'), Call('Fs', x)), Eq(V('b'), Call('Fs', V('a')))))]), ['T'])
  yield Case('AGGE', Program([Fs, Fc, R('T', x, Call('Fs', Call('Fc', x)), Call('Fc', Call('Fs', x)), body=(Lit('B', x),))]), ['T'])
  yield Case('AGGE', Program([Fc, R('T', x, Bin('+', Call('Fc', x), Call('Fc', Call('Fc', x))), body=(Lit('B', x),))]), ['T'])
  Jn = R('Jn', x, body=(Lit('B', x), Not(Lit('A', x, y), Cmp('>', y, x))))
  yield Case('AGGE', Program([Jn, R('T', x, z, body=(Lit('Jn', x), Lit('A', x, z), Lit('Jn', z)))]), ['T'])
  # combine inside an injected predicate: must not capture the caller's variable of the same name
  J = R('J', x, s_, body=(Eq(s_, Comb('Sum', y, (Lit('A', x, y),))),))
  yield Case('AGGE', Program([J, R('T', y, s_, body=(Lit('B', y), Lit('J', y, s_)))]), ['T'])
  yield Case('AGGE', Program([J, R('T', x, y, s_, body=(Lit('A', x, y), Lit('J', y, s_)))]), ['T'])
  yield Case('AGGE', Program([J, R('T', x, y, s_, body=(Lit('A', x, y), Lit('J', x, s_)))]), ['T'])


def gen_wide_agg(full):
  """C02 shapes beyond the small grammars: many aggregates / keys per head, many combines per rule, 3-4 levels of nesting"""
  vs = [V('s%d' % i) for i in range(12)]
  ops = ['Sum', 'Min', 'Max', 'Count', 'List', 'Set', 'Avg']
  # 4 keys + 9 aggregated columns, positions >= 10 aggregated; named counterpart
  aggs = [Aggr(ops[i % 7], (y, Bin('+', x, y), N(1), Bin('*', y, N(10)))[i % 4]) for i in range(9)]
  keys = [x, Bin('+', x, N(10)), Bin('*', x, N(2)), N(7)]
  yield Case('WIDEAGG', Program([R('T', *(keys + aggs), body=(Lit('A', x, y),), distinct=True)]), ['T'])
  yield Case('WIDEAGG', Program([R('T', named=dict([('k%d' % i, k) for i, k in enumerate(keys)] + [('g%d' % i, a) for i, a in enumerate(aggs)]), body=(Lit('A', x, y),), distinct=True)]), ['T'])
  yield Case('WIDEAGG', Program([R('T', *aggs, Aggr('Sum', x), Aggr('Max', x), Aggr('List', x), body=(Lit('A', x, y),), distinct=True)]), ['T'], info='keyless')
  # a 13-column aggregated intermediate read back (grouped table -> positional join)
  W = R('W', *(keys + aggs), body=(Lit('A', x, y),), distinct=True)
  yield Case('WIDEAGG', Program([W, R('T', vs[0], vs[10], vs[11], vs[4], body=(Lit('W', vs[0], vs[1], vs[2], vs[3], vs[4], vs[5], vs[6], vs[7], vs[8], vs[9], vs[10], vs[11], V('s12')),))]), ['T', 'W'])
  yield Case('WIDEAGG', Program([W, R('T', vs[0], Aggr('Sum', vs[10]), Aggr('Max', vs[4]), body=(Lit('W', **{'col0': vs[0], 'col10': vs[10], 'col4': vs[4]}),), distinct=True)]), ['T'])
  # 11 combines in one rule (generated names beyond one digit), correlated and not
  inner = [(Lit('A', x, y),), (Lit('A', y, x),), (Lit('A', x, y), Lit('B', y)), (Lit('A', y, z), Lit('B', z)), (Lit('A', y, y),), (('in', y, ('list', (x, N(1), N(1)))),)]
  body = (Lit('B', x),) + tuple(Eq(vs[i], Comb(ops[i % 7], (y, Bin('+', x, y))[i % 2], inner[i % 6])) for i in range(11))
  yield Case('WIDEAGG', Program([R('T', x, *vs[:11], body=body)]), ['T'])
  yield Case('WIDEAGG', Program([R('T', x, vs[10], vs[2], body=body + (Cmp('>=', vs[3], N(0)),))]), ['T'])
  # 4 levels of combine nesting, every level correlated with the outermost variable
  c3 = Comb('Sum', z, (Lit('A', x, z),))
  c2 = Comb('Max', Bin('+', y, c3), (Lit('A', x, y),))
  c1 = Comb('List', Bin('+', V('w'), c2), (Lit('B', V('w')), Cmp('<=', V('w'), x)))
  yield Case('WIDEAGG', Program([R('T', x, c1, body=(Lit('B', x),))]), ['T'])
  c4 = Comb('Count', V('v'), (Lit('B', V('v')), Cmp('>', Comb('Sum', V('w'), (Lit('A', V('v'), V('w')), Cmp('>=', Comb('Max', z, (Lit('A', V('w'), z),)), x))), N(0))))
  yield Case('WIDEAGG', Program([R('T', x, c4, body=(Lit('B', x),))]), ['T'])
  # negation nested 4 deep, alternating with combine and disjunction
  n4 = Not(Lit('A', x, y), Not(Lit('A', y, z), Not(Lit('B', z), Not(Lit('A', z, x)))))
  yield Case('WIDEAGG', Program([R('T', x, body=(Lit('B', x), n4))]), ['T'])
  yield Case('WIDEAGG', Program([R('T', x, body=(Lit('B', x), Not(Lit('A', x, y), Not(Lit('B', y)), Cmp('>', Comb('Count', z, (Lit('A', y, z), Not(Lit('B', z)))), N(0)))))]), ['T'])
  yield Case('WIDEAGG', Program([R('T', x, Aggr('Sum', Comb('Count', z, (Lit('A', y, z), Not(Lit('A', z, x))))), body=(Lit('A', x, y), Not(Lit('B', y), Not(Lit('A', y, y)))), distinct=True)]), ['T'])
  # aggregation inside an injected predicate inside a disjunction inside a negation
  J = R('J', x, s_, body=(Eq(s_, Comb('Sum', y, (Lit('A', x, y),))),))
  yield Case('WIDEAGG', Program([J, R('T', x, body=(Lit('B', x), ('or', ((Not(Lit('J', x, s_), Cmp('>', s_, N(2))),), (Not(Lit('A', x, x)), Lit('J', x, N(2)))))))]), ['T'])
  yield Case('WIDEAGG', Program([J, R('T', y, Aggr('List', s_), body=(Lit('A', x, y), ('or', ((Lit('J', x, s_),), (Lit('J', y, s_), Not(Lit('B', x)))))), distinct=True)]), ['T'])
  # chain of 5 aggregating predicates, each grouping the previous one
  rs = [R('G0', x, Aggr('Sum', y), body=(Lit('A', x, y),), distinct=True)]
  for i in range(1, 5):
    rs.append(R('G%d' % i, (x, Bin('+', x, N(1)), Bin('%', x, N(2)), N(0))[i % 4], Aggr(('Max', 'Sum', 'Count', 'Min')[i % 4], Bin('+', y, N(i))), body=(Lit('G%d' % (i - 1), x, y),), distinct=True))
  yield Case('WIDEAGG', Program(rs + [R('T', x, y, body=(Lit('G4', x, y),))]), ['T', 'G4', 'G2'])
  yield Case('WIDEAGG', Program(rs + [Ann('@NoInject(G1);'), Ann('@NoInject(G3);'), R('T', x, y, z, body=(Lit('G4', x, y), Lit('G2', x, z)))]), ['T'])
  # groups with many members and duplicates: sums, K-best and ordering of 2-digit values inside a group
  big = tuple(('in', V(n), ('list', (N(1), N(2), N(10), N(2), N(-3), N(0)))) for n in ('x', 'y'))
  for op in ops:
    yield Case('WIDEAGG', Program([R('T', Bin('%', Bin('+', x, N(3)), N(2)), Aggr(op, Bin('+', Bin('*', x, N(10)), y)), body=big, distinct=True)]), ['T'])
  for op in ('ArgMin', 'ArgMax'):
    yield Case('WIDEAGG', Program([R('T', Bin('%', Bin('+', x, N(3)), N(2)), Aggr(op, ('arrow', ('list', (x, y)), Bin('+', Bin('*', x, N(100)), y))), body=big, distinct=True)]), ['T'])
    dfn = Ann('%s3(a) = %sK(a, 3);' % (op, op))
    yield Case('WIDEAGG', Program([dfn, R('T', x, Aggr(op + '3', ('arrow', y, Bin('-', Bin('*', y, y), Bin('*', y, N(4))))), body=big, distinct=True)]), ['T'])


def gen_mix(full):
  """features that are each covered alone, used together in one rule: disjunction next to negation / combine / implication / aggregation,
  and `in` whose left side is an expression or constant and whose list elements coincide on some rows (multiplicity = number of matching elements)"""
  w = V('w')
  ors = [('or', ((Lit('A', x, y),), (Lit('A', y, x),))), ('or', ((Cmp('<', x, N(2)),), (Cmp('>=', x, N(2)),))), ('or', ((Lit('A', x, y), Lit('B', y)), (Lit('B', y), Cmp('!=', x, y)), (Eq(y, N(1)),)))]
  outs = [Not(Lit('A', x, x)), Not(Lit('A', x, z), Lit('B', z)), ('imp', (Lit('A', x, z),), (Lit('B', z),)), Eq(s_, Comb('Sum', z, (Lit('A', x, z),))), ('aggeq', 's', 'List', z, (Lit('A', z, x),)),
          Cmp('>', Comb('Count', z, (Lit('A', z, x),)), N(0)), Eq(s_, Bin('+', Comb('Max', z, (Lit('A', x, z),)), N(1)))]
  for o in ors:
    for c in outs:
      head = (x, s_) if 's' in lang.bvars((c,)) else (x,)
      yield Case('MIX', Program([R('T', *head, body=(Lit('B', x), c, o))]), ['T'])
      yield Case('MIX', Program([R('T', *head, body=(Lit('B', x), o, c))]), ['T'])
    yield Case('MIX', Program([R('T', x, Aggr('Sum', N(1)), body=(Lit('B', x), Not(Lit('A', x, x)), o), distinct=True)]), ['T'])
    yield Case('MIX', Program([R('T', x, Aggr('List', x), Aggr('Count', x), body=(Lit('B', x), o, Cmp('>=', Comb('Count', z, (Lit('A', z, x),)), N(0))), distinct=True)]), ['T'])
    yield Case('MIX', Program([R('T', x, value=Aggr('Sum', N(1)), body=(Lit('B', x), Not(Lit('A', x, z), Lit('B', z)), o))]), ['T'])
  # an aggregating expression nested below the top of an expression that mentions the variable the conjunct constrains (a filter, not a definition), before and after the literal binding it
  nested = [Eq(x, Bin('+', N(1), Comb('Sum', y, (Lit('B', y), Cmp('<', y, x))))), Eq(x, Bin('-', Bin('*', N(2), Comb('Count', y, (Lit('A', y, z), Cmp('<=', y, x)))), N(0))),
            ('in', x, ('list', (Comb('Count', y, (Lit('A', x, y),)), N(1)))), Eq(V('l'), ('list', (Comb('Sum', y, (Lit('A', x, y),)), x))), Cmp('<', x, Bin('+', Comb('Max', y, (Lit('A', y, x),)), N(1))),
            Eq(x, ('if', Bin('>', Comb('Count', y, (Lit('A', x, y),)), N(0)), x, N(1)))]
  for c in nested:
    head = (x, V('l')) if 'l' in lang.bvars((c,)) else (x,)
    yield Case('MIX', Program([R('T', *head, body=(c, Lit('B', x)))]), ['T'])
    yield Case('MIX', Program([R('T', *head, body=(Lit('B', x), c))]), ['T'])
    yield Case('MIX', Program([R('T', *head, body=(c, Lit('B', x), Cmp('>', x, N(0))))]), ['T'])
  # two inclusions where the list of one mentions the element of the other through a nested aggregation, both orders, with padding inclusions (generated names x_9 / x_10)
  pad = [('in', V('p%d' % i), ('list', (N(i),))) for i in range(4)]
  i1 = ('in', y, ('list', (N(1), N(2), N(3))))
  i2 = ('in', z, ('list', (Bin('+', N(0), Comb('Sum', V('w'), (Lit('B', V('w')), Cmp('<=', V('w'), y)))), N(7))))
  for k in range(5):
    yield Case('MIX', Program([R('T', x, y, z, body=(Lit('B', x),) + tuple(pad[:k]) + (i2, i1))]), ['T'])
    yield Case('MIX', Program([R('T', x, y, z, body=(Lit('B', x), i1) + tuple(pad[:k]) + (i2,))]), ['T'])
  ins = [('in', Bin('+', x, N(1)), ('list', (Bin('+', y, N(1)), Bin('+', x, N(1))))), ('in', N(2), ('list', (x, y, N(2)))), ('in', x, ('list', (y, y))), ('in', x, ('list', (y, x, N(1)))),
         ('in', Bin('*', x, N(1)), ('list', (y, x))), ('in', Bin('+', x, y), ('list', (N(2), N(3), Bin('*', x, N(2)), Bin('*', y, N(2))))), ('in', Call('ToString', x), ('list', (Call('ToString', y), S('1'), S('1'))))]
  for i in ins:
    yield Case('MIX', Program([R('T', x, y, body=(Lit('A', x, y), i))]), ['T'])
    yield Case('MIX', Program([R('T', x, y, body=(i, Lit('A', x, y)))]), ['T'])
    yield Case('MIX', Program([R('T', x, Aggr('Count', y), body=(Lit('A', x, y), i), distinct=True)]), ['T'])
    yield Case('MIX', Program([R('T', w, s_, body=(Lit('B', w), Eq(s_, Comb('Sum', N(1), (Lit('A', x, y), i, Cmp('<=', w, N(2)))))))]), ['T'])
    yield Case('MIX', Program([R('T', w, body=(Lit('B', w), Not(Lit('A', x, y), i, Cmp('==', x, w))))]), ['T'])
    yield Case('MIX', Program([R('J', x, y, body=(Lit('A', x, y), i)), R('T', x, y, body=(Lit('J', x, y), Lit('B', y)))]), ['T', 'J'])


def gen_neg(full):
  inner = AGGE_INNER[:7]
  for ib in inner:
    yield Case('NEG', Program([R('T', x, body=(Lit('B', x), Not(*ib)))]), ['T'])
    yield Case('NEG', Program([R('T', x, y, body=(Lit('A', x, y), Not(*ib)))]), ['T'])
    yield Case('NEG', Program([R('T', x, body=(Lit('B', x), Not(Not(*ib))))]), ['T'])
    yield Case('NEG', Program([R('T', x, body=(Lit('B', x), Not(*ib), Not(Lit('A', y, x))))]), ['T'])
    yield Case('NEG', Program([R('T', x, body=(Not(*ib), Lit('B', x)))]), ['T'])
    yield Case('NEG', Program([R('T', x, body=(Lit('B', x), Not(*(tuple(ib) + (Cmp('>', y, x),)))))]), ['T'])
    yield Case('NEG', Program([R('T', x, body=(Lit('B', x), ('imp', tuple(ib), (Lit('B', y),))))]), ['T'])
    yield Case('NEG', Program([R('T', x, body=(Lit('B', x), ('imp', (Lit('A', x, y),), tuple(ib))))]), ['T'])
    # negation inside a combine, combine inside a negation
    yield Case('NEG', Program([R('T', x, s_, body=(Lit('B', x), Eq(s_, Comb('Sum', z, (Lit('A', x, z), Not(*ib))))))]), ['T'])
    yield Case('NEG', Program([R('T', x, body=(Lit('B', x), Not(Lit('A', x, z), Cmp('>', Comb('Count', y, ib), z))))]), ['T'])
    yield Case('NEG', Program([R('T', x, Aggr('Count', y), body=(Lit('A', x, y), Not(*ib)), distinct=True)]), ['T'])
  for b1, b2 in itertools.product(inner[:4], repeat=2):
    yield Case('NEG', Program([R('T', x, body=(Lit('B', x), Not(*b1), Not(*b2)))]), ['T'])
    yield Case('NEG', Program([R('T', x, body=(Lit('B', x), Not(Not(*b1), Not(*b2))))]), ['T'])
    yield Case('NEG', Program([R('T', x, body=(Lit('B', x), ('or', ((Not(*b1),), (Not(*b2),)))))]), ['T'])
  # an injected predicate whose nested negation has a local variable named like a variable of the caller
  for jbody in [
      (Lit('B', x), ('imp', (Lit('B', x),), (Lit('A', x, y),))),
      (Lit('B', x), Not(Lit('B', x), Not(Lit('A', x, y)))),
      (Lit('B', x), Not(Cmp('>', x, N(0)), Not(Lit('A', y, x), Cmp('>=', y, x)))),
      (Lit('B', x), Eq(s_, Comb('Count', N(1), (Lit('B', x), Not(Lit('A', x, y))))), Cmp('>=', s_, N(0))),
  ]:
    J = R('J', x, body=jbody)
    yield Case('NEG', Program([J, R('T', x, y, body=(Lit('J', x), Lit('A', y, x)))]), ['T', 'J'])
    yield Case('NEG', Program([J, R('T', y, x, body=(Lit('A', y, x), Lit('J', x)))]), ['T'])
    yield Case('NEG', Program([J, R('T', y, body=(Lit('B', y), Lit('J', y), Lit('A', y, x)))]), ['T'])
    yield Case('NEG', Program([J, R('T', x, s_, body=(Lit('J', x), Eq(s_, Comb('Sum', y, (Lit('A', x, y),)))))]), ['T'])
  # negated intermediate predicate (concrete) and negated injectible
  P = R('P', x, body=(Lit('A', x, y), Lit('B', y)))
  yield Case('NEG', Program([P, R('T', x, body=(Lit('B', x), Not(Lit('P', x))))]), ['T'])
  Q = R('Q', x, Aggr('Sum', y), body=(Lit('A', x, y),), distinct=True)
  yield Case('NEG', Program([Q, R('T', x, body=(Lit('B', x), Not(Lit('Q', x, N(2)))))]), ['T'])
  yield Case('NEG', Program([Q, R('T', x, body=(Lit('B', x), Not(Lit('Q', x, s_), Cmp('>', s_, N(2)))))]), ['T'])


NULL_DBS_AB = [
  {'A': [(1, None), (1, 2)], 'B': [(1,), (2,)]},
  {'A': [(1, None)], 'B': [(1,)]},
  {'A': [(1, None), (1, None), (2, 1)], 'B': [(1,), (2,)]},
  {'A': [(2, None), (2, 2), (2, 1), (1, 2)], 'B': [(1,), (2,), (2,)]},
]
TIE_DBS_AB = [
  {'A': [(1, 2), (1, 2), (2, 1)], 'B': [(1,), (2,)]},
  {'A': [(1, 1), (1, 2), (2, 2)], 'B': [(1,), (2,)]},
  {'A': [(1, 1), (2, 1), (2, 2), (1, 2)], 'B': [(2,), (1,), (1,)]},
  {'A': [(1, 2), (1, 1), (1, 4), (1, 3)], 'B': [(1,), (2,), (3,), (4,)]},
  {'A': [(1, 3), (2, 4), (1, 1), (2, 2), (1, 2)], 'B': [(1,), (2,), (4,), (3,)]},
]


def null_safe(case):
  """null hygiene (DESIGN 2.4): A.col1 may hold null only if, in this program, it flows exclusively into aggregated
  inputs / is-null tests / pass-through output.  Conservative syntactic test: every occurrence of a variable bound
  at A's second argument is either a bare aggregated expression or a bare head argument, and A's second argument is
  always a plain variable that occurs in no other literal, comparison or arithmetic."""
  for r in case.program.rules():
    ok = [True]
    second = set()
    def scan_body(body):
      for p in body:
        if p[0] == 'lit':
          if p[1] == 'A':
            a1 = p[2][1][1]
            if a1[0] != 'v': ok[0] = False
            else: second.add(a1[1])
        elif p[0] in ('not', ): scan_body(p[1])
        elif p[0] == 'or':
          for b in p[1]: scan_body(b)
        elif p[0] == 'imp': scan_body(p[1]); scan_body(p[2])
    def combs(e):
      def f(n):
        if n[0] == 'comb': scan_body(n[3])
        return n
      lang.emap(e, f)
    if r.body:
      scan_body(r.body)
      for p in r.body:
        if p[0] == 'eq': combs(p[1]); combs(p[2])
        if p[0] == 'aggeq': scan_body(p[4])
    if not ok[0]: return False
    # count uses of those variables anywhere except: as A's 2nd arg, as bare aggregated expr, bare head arg
    text = lang.rule_str(r)
    for v in second:
      uses = 0
      def count_e(e, bare_ok):
        nonlocal uses
        if e[0] == 'v':
          if e[1] == v and not bare_ok: uses += 1
          return
        if e[0] == 'aggr': count_e(e[2], True); return
        if e[0] == 'comb':
          count_e(e[2], True); count_b(e[3]); return
        for sub in sub_exprs(e): count_e(sub, False)
      def count_b(body):
        nonlocal uses
        for p in body:
          t = p[0]
          if t == 'lit':
            for i, (f, a) in enumerate(p[2]):
              if p[1] == 'A' and i == 1 and a == ('v', v): continue
              count_e(a, False)
          elif t == 'cmp': count_e(p[1], False)
          elif t in ('eq', 'in'): count_e(p[1], False); count_e(p[2], False)
          elif t == 'not': count_b(p[1])
          elif t == 'or':
            for b in p[1]: count_b(b)
          elif t == 'imp': count_b(p[1]); count_b(p[2])
          elif t == 'aggeq': count_e(p[3], True); count_b(p[4])
      for f, e in r.args: count_e(e, True)
      if r.value is not None: count_e(r.value, True)
      if r.body: count_b(r.body)
      if uses: return False
  return True


def sub_exprs(e):
  t = e[0]
  if t in ('v', 'n', 's', 'b', 'null'): return []
  if t == 'bin': return [e[2], e[3]]
  if t == 'un': return [e[2]]
  if t == 'isnull': return [e[1]]
  if t == 'list': return list(e[1])
  if t == 'rec': return [x for _, x in e[1]]
  if t == 'fld': return [e[1]]
  if t in ('elem', 'inx', 'arrow'): return [e[1], e[2]]
  if t == 'if': return [e[1], e[2], e[3]]
  if t == 'call': return [x for _, x in e[2]]
  return []


def c02_cases(thorough):
  dbs = (dbs_ab(3) if thorough else dbs_ab(2)) + TIE_DBS_AB + val_dbs()
  seen = set()
  for c in gen_str(thorough, agg=True):
    c.dbs = semcheck.dbs_abs(); c.fact_dbs = semcheck.FACT_DBS_ABS
    yield c
  for g in (gen_aggh(thorough), gen_agge(thorough), gen_neg(thorough), gen_wide_agg(thorough), gen_mix(thorough)):
    for c in g:
      if c is None: continue
      t = c.text()
      if t in seen: continue
      if not static_ok(c.program.rules(), 'T'): continue
      seen.add(t)
      c.dbs = list(dbs); c.fact_dbs = FACT_DBS_AB[1:]
      # null-bearing databases only where the null flows into aggregated inputs / pass-through only; a grouped (distinct)
      # head must not use the nullable variable as a key
      if null_safe(c) and not any(r.distinct and any(e[0] != 'aggr' and 'y' in lang.evars(e) for _, e in r.args) for r in c.program.rules()):
        c.dbs += NULL_DBS_AB
      if getattr(c, 'own_dbs', None): c.dbs = list(c.own_dbs); c.fact_dbs = []
      if 'main.' in t: c.fact_dbs = []        # a schema-qualified name is a table of the database, not a predicate of the program
      yield c


# ======================================================================================== C03 recursion
from .lang import Ann


def E(a, b): return Lit('E', a, b)
n_, m_, d_ = V('n'), V('m'), V('d')


def rec_shapes():
  """name -> (rules, predicates to check, kind, cost class). kind: 'set' (distinct, monotone) | 'bag' | 'agg'.
  cost: 'lin' (cheap to unfold deep) | 'heavy' (non-linear / flat: deep unfolding compiles slowly)."""
  S = {}
  def D(*a, **k): return R(*a, distinct=True, **k)
  S['tc_right'] = ([D('T', x, y, body=(E(x, y),)), D('T', x, z, body=(E(x, y), Lit('T', y, z)))], ['T'], 'set', 'lin')
  S['tc_left'] = ([D('T', x, y, body=(E(x, y),)), D('T', x, z, body=(Lit('T', x, y), E(y, z)))], ['T'], 'set', 'lin')
  S['tc_nonlin'] = ([D('T', x, y, body=(E(x, y),)), D('T', x, z, body=(Lit('T', x, y), Lit('T', y, z)))], ['T'], 'set', 'heavy')
  S['tc_bag'] = ([R('T', x, y, body=(E(x, y),)), R('T', x, z, body=(E(x, y), Lit('T', y, z)))], ['T'], 'bag', 'lin')
  S['tc_one_rule'] = ([D('T', x, z, body=(('or', ((E(x, z),), (E(x, y), Lit('T', y, z)))),))], ['T'], 'set', 'lin')
  S['reach_from_1'] = ([D('T', N(1)), D('T', y, body=(Lit('T', x), E(x, y)))], ['T'], 'set', 'lin')
  S['counter_bag'] = ([R('T', N(0)), R('T', Bin('+', n_, N(1)), body=(Lit('T', n_),))], ['T'], 'bag', 'lin')
  S['counter_set'] = ([D('T', N(0)), D('T', Bin('+', n_, N(1)), body=(Lit('T', n_), Cmp('<', n_, N(12))))], ['T'], 'set', 'lin')
  S['counter_two'] = ([R('T', N(0), N(1)), R('T', Bin('+', n_, N(1)), Bin('*', m_, N(2)), body=(Lit('T', n_, m_), Cmp('<', n_, N(40))))], ['T'], 'bag', 'lin')
  S['with_intermediate'] = ([R('Step', x, y, body=(E(x, y), Cmp('!=', x, y))), D('T', x, y, body=(Lit('Step', x, y),)), D('T', x, z, body=(Lit('T', x, y), Lit('Step', y, z))),
                             R('Out', x, body=(Lit('T', x, x),))], ['T', 'Out'], 'set', 'lin')
  S['mutual_cut'] = ([D('T', x, y, body=(E(x, y),)), D('T', x, z, body=(Lit('U', x, y), E(y, z))), D('U', x, y, body=(Lit('T', x, y),))], ['T', 'U'], 'set', 'lin')
  S['even_odd'] = ([D('Ev', N(1)), D('Od', y, body=(Lit('Ev', x), E(x, y))), D('Ev', y, body=(Lit('Od', x), E(x, y)))], ['Ev', 'Od'], 'set', 'lin')
  S['ring3'] = ([D('P', x, body=(E(x, x),)), D('P', y, body=(Lit('R_', x), E(x, y))), D('Q', y, body=(Lit('P', x), E(x, y))), D('R_', y, body=(Lit('Q', x), E(x, y)))],
                ['P', 'Q', 'R_'], 'set', 'lin')
  S['mutual_flat'] = ([D('T', x, y, body=(E(x, y),)), D('T', x, z, body=(Lit('T', x, y), E(y, z))), D('T', x, z, body=(Lit('U', x, y), E(y, z))),
                       D('U', x, y, body=(E(y, x),)), D('U', x, z, body=(Lit('T', x, y), Lit('U', y, z))), D('U', x, z, body=(Lit('U', x, y), E(y, z)))], ['T', 'U'], 'set', 'heavy')
  S['mutual_flat_small'] = ([D('P', x, body=(E(x, x),)), D('P', y, body=(Lit('P', x), E(x, y))), D('P', y, body=(Lit('Q', x), E(y, x))),
                             D('Q', y, body=(Lit('P', x), E(x, y))), D('Q', y, body=(Lit('Q', x), E(x, y), Cmp('!=', x, y)))], ['P', 'Q'], 'set', 'heavy')
  S['flat_bag'] = ([R('P', N(0)), R('P', Bin('+', n_, N(1)), body=(Lit('P', n_), Cmp('<', n_, N(3)))), R('P', Bin('+', n_, N(2)), body=(Lit('Q', n_), Cmp('<', n_, N(3)))),
                    R('Q', n_, body=(Lit('P', n_),)), R('Q', Bin('+', n_, N(1)), body=(Lit('Q', n_), Cmp('<', n_, N(2))))], ['P', 'Q'], 'bag', 'heavy')
  S['shortest_path'] = ([R('D', x, y, value=Aggr('Min', N(1)), body=(E(x, y),)), R('D', x, z, value=Aggr('Min', Bin('+', d_, N(1))), body=(Lit('D', x, y, logica_value=d_), E(y, z)))],
                         ['D'], 'agg', 'lin')
  S['shortest_path_fn'] = ([R('D', x, y, value=Aggr('Min', N(1)), body=(E(x, y),)), R('D', x, z, value=Aggr('Min', Bin('+', Call('D', x, y), N(1))), body=(E(y, z),))],
                            ['D'], 'agg', 'lin')
  S['reach_max_multibody'] = ([R('Rch', x, value=Aggr('Max', N(1)), body=(E(x, x),)), R('Rch', y, value=Aggr('Max', Bin('+', Call('Rch', x), N(0))), body=(E(x, y),))], ['Rch'], 'agg', 'lin')
  S['count_paths'] = ([R('C', x, y, value=Aggr('Sum', N(1)), body=(E(x, y),)), R('C', x, z, value=Aggr('Sum', V('c')), body=(Lit('C', x, y, logica_value=V('c')), E(y, z), Cmp('<', y, z)))], ['C'], 'agg', 'lin')
  S['through_functor'] = ([D('T', x, y, body=(E(x, y),)), D('T', x, z, body=(E(x, y), Lit('T', y, z))), R('E2', y, x, body=(E(x, y),)), lang.Functor('M', 'T', (('E', 'E2'),))], ['T', 'M'], 'set', 'lin')
  S['ring3_through_functor'] = (list(S['ring3'][0]) + [R('E2', y, x, body=(E(x, y),)), lang.Functor('M', 'P', (('E', 'E2'),))], ['P', 'M'], 'set', 'lin')
  S['tc_one_rule_base_first'] = ([D('T', x, y, body=(('or', ((E(x, y),), (Lit('T', x, z), E(z, y)))),))], ['T'], 'set', 'lin')
  S['tc_one_rule_base_last'] = ([D('T', x, y, body=(('or', ((Lit('T', x, z), E(z, y)), (E(x, y),))),))], ['T'], 'set', 'lin')
  S['tc_one_rule_bag_base_first'] = ([R('T', x, y, body=(('or', ((E(x, y),), (Lit('T', x, z), E(z, y)))),))], ['T'], 'bag', 'lin')
  S['tc_one_rule_bag_base_last'] = ([R('T', x, y, body=(('or', ((Lit('T', x, z), E(z, y)), (E(x, y),))),))], ['T'], 'bag', 'lin')
  S['good_bad_through_negation'] = ([D('Bad', x, body=(E(x, x),)), D('Bad', y, body=(Lit('Good', x), E(x, y))), D('Good', x, body=(E(x, y), Not(Lit('Bad', x))))], ['Good', 'Bad'], 'agg', 'lin')
  S['consumer_of_recursive'] = ([D('T', x, y, body=(E(x, y),)), D('T', x, z, body=(E(x, y), Lit('T', y, z))), R('Cnt', x, Aggr('Count', y), body=(Lit('T', x, y),), distinct=True),
                                 R('Neg', x, body=(E(x, y), Not(Lit('T', y, x))))], ['Cnt', 'Neg'], 'agg', 'lin')
  S['tc_left_bag'] = ([R('T', x, y, body=(E(x, y),)), R('T', x, z, body=(Lit('T', x, y), E(y, z)))], ['T'], 'bag', 'lin')
  S['same_generation'] = ([D('SG', x, y, body=(E(z, x), E(z, y))), D('SG', x, y, body=(E(V('a'), x), Lit('SG', V('a'), V('b')), E(V('b'), y)))], ['SG'], 'set', 'lin')
  S['with_negated_base'] = ([R('Blk', x, body=(E(x, x),)), D('T', x, y, body=(E(x, y), Not(Lit('Blk', x)))), D('T', x, z, body=(Lit('T', x, y), E(y, z), Not(Lit('Blk', y))))], ['T'], 'agg', 'lin')
  S['bounded_distance'] = ([D('Nd', x, N(0), body=(E(x, y),)), D('Nd', x, Bin('+', d_, N(1)), body=(Lit('Nd', y, d_), E(x, y), Cmp('<', d_, N(3))))], ['Nd'], 'set', 'lin')
  S['depth_max'] = ([R('Dp', x, value=Aggr('Max', N(0)), body=(E(x, y),)), R('Dp', y, value=Aggr('Max', Bin('+', d_, N(1))), body=(Lit('Dp', x, logica_value=d_), E(x, y)))], ['Dp'], 'agg', 'lin')
  S['ring3_flat'] = ([D('P', x, body=(E(x, x),)), D('P', y, body=(Lit('R_', x), E(x, y))), D('P', y, body=(Lit('P', x), E(x, y), Cmp('<', x, y))), D('Q', y, body=(Lit('P', x), E(x, y))), D('Q', x, body=(Lit('Q', x), E(x, x))),
                      D('R_', y, body=(Lit('Q', x), E(x, y))), D('R_', y, body=(Lit('R_', x), E(y, x)))], ['P', 'Q', 'R_'], 'set', 'heavy')
  S['functor_of_mutual'] = ([D('Ev', N(1)), D('Od', y, body=(Lit('Ev', x), E(x, y))), D('Ev', y, body=(Lit('Od', x), E(x, y))), R('E2', y, x, body=(E(x, y),)), lang.Functor('Ev2', 'Ev', (('E', 'E2'),))], ['Ev', 'Ev2'], 'set', 'lin')
  S['union_of_two_recursions'] = ([D('T', x, y, body=(E(x, y),)), D('T', x, z, body=(E(x, y), Lit('T', y, z))), D('U', x, y, body=(E(y, x),)), D('U', x, z, body=(Lit('U', x, y), E(z, y))), R('Both', x, y, body=(Lit('T', x, y), Lit('U', y, x)))],
                                  ['Both', 'U'], 'set', 'lin')
  S['two_components'] = ([D('T', x, y, body=(E(x, y),)), D('T', x, z, body=(E(x, y), Lit('T', y, z))), D('W', x, body=(Lit('T', x, x),)), D('W', y, body=(Lit('W', x), Lit('T', x, y)))], ['T', 'W'], 'set', 'lin')
  return S


def graphs3():
  """all digraphs on {1,2,3} with loops, up to isomorphism (104)"""
  cells = [(a, b) for a in (1, 2, 3) for b in (1, 2, 3)]
  seen = set(); out = []
  for mask in range(512):
    g = frozenset(cells[i] for i in range(9) if mask >> i & 1)
    canon = min(tuple(sorted((p[a - 1], p[b - 1]) for a, b in g)) for p in itertools.permutations((1, 2, 3)))
    if canon in seen: continue
    seen.add(canon); out.append(sorted(g))
  return out


def chain_graphs(depth):
  out = []
  for n in sorted({max(2, depth - 1), depth, depth + 1, depth + 2, depth + 3}):
    out.append([(i, i + 1) for i in range(1, n)])
    out.append([(i, i + 1) for i in range(1, n)] + [(n, 1)])
  # a long cycle with a self-loop: shapes whose base case is E(x, x) derive nothing on the graphs above
  for n in (depth + 1, depth + 4):
    out.append([(i, i + 1) for i in range(1, n)] + [(n, 1), (1, 1)])
  return out


BAG_TC = ('tc_bag', 'tc_left_bag', 'tc_one_rule_bag_base_first', 'tc_one_rule_bag_base_last')


def c03_cases(thorough):
  S = rec_shapes()
  G3 = graphs3()
  quick_depths = {'lin': [None, 1, 2, 3, 7, 20, 21, 22], 'heavy': [1, 2, 3]}
  thorough_depths = {'lin': [None, 1, 2, 3, 7, 8, 19, 20, 21, 22, 25, 30], 'heavy': [None, 1, 2, 3, 21, 22]}
  for name, (rules, preds, kind, cost) in S.items():
    depths = (thorough_depths if thorough else quick_depths)[cost]
    rec_preds = sorted({r.pred for r in rules if isinstance(r, Rule)})
    for depth in depths:
      d = 8 if depth is None else depth
      if kind == 'bag' and name in BAG_TC and d > 3: continue
      if name == 'good_bad_through_negation' and d <= 20: continue      # not monotone: only the iterative plan is the simultaneous iteration (a cut unfolding is merely sandwiched, which needs monotonicity)     # path counts explode on cyclic graphs
      anns = [None]
      if depth is not None:
        ev = refsem.Evaluator([r for r in rules if isinstance(r, Rule)], {'E': (['col0', 'col1'], [])})
        comps = sorted({ev.component(p) for p in rec_preds if ev.component(p)}, key=sorted)
        # annotate the first member of every component; in thorough also each other member of the first component
        anns = [[sorted(c)[0] for c in comps]]
        if comps and len(comps[0]) > 1 and (depth in (2, 21) if thorough else (depth == 2 or (depth == 21 and cost == 'lin'))):
          anns += [[m] + [sorted(c)[0] for c in comps[1:]] for m in sorted(comps[0])[1:]]
      for ann in anns:
        stmts = list(rules)
        depths_map = {}
        if ann:
          for p in ann:
            stmts.append(Ann('@Recursive(%s, %d);' % (p, depth)))
            for q in ev.component(p): depths_map[q] = depth
        graphs = list(G3) if kind != 'bag' or name not in BAG_TC else [g for g in G3 if all(a < b for a, b in g)]
        graphs += chain_graphs(d)
        if name in ('counter_bag', 'counter_set', 'counter_two', 'flat_bag'): graphs = [[]]
        c = Case('REC/' + name, Program(stmts), preds, schema='E', dbs=[{'E': g} for g in graphs], depths=depths_map, info=dict(kind=kind, depth=d, annotated=ann, shape=name))
        yield c


# ======================================================================================== C04 functors
semcheck.SCHEMAS['U4'] = {'A1': ['col0'], 'B1': ['col0'], 'C1': ['col0'], 'D1x': ['col0']}
from .lang import Functor


def dbs_u4():
  opts = [[], [(1,)], [(1,), (2,)], [(2,), (2,), (3,)]]
  out = []
  for a, b, c in itertools.product(opts, repeat=3):
    out.append({'A1': a, 'B1': b, 'C1': c, 'D1x': [(3,), (1,)]})
  return out


def unary_rule(name, bodies):
  """bodies: list of conjunctions (lists of predicate names) over x"""
  if len(bodies) == 1: body = tuple(Lit(q, x) for q in bodies[0])
  else: body = (('or', tuple(tuple(Lit(q, x) for q in b) for b in bodies)),)
  return R(name, x, body=body)


def c04_shapes(thorough):
  BASES = ['A1', 'B1', 'C1']
  def bodies(av):
    out = [[[a]] for a in av]
    out += [[[a, b]] for a, b in itertools.combinations(av, 2)]
    out += [[[a], [b]] for a, b in itertools.combinations(av, 2)]
    return out
  B1s = bodies(BASES[:2]) if thorough else [[['A1']], [['A1', 'B1']], [['A1'], ['B1']]]
  B2s = (bodies(['A1', 'C1', 'D1'])[:6] + [[['D1', 'B1']], [['D1'], ['C1']]]) if thorough else [[['D1']], [['A1', 'D1']], [['C1'], ['D1']], [['D1', 'B1']]]
  for b1 in B1s:
    for b2 in B2s:
      for bf in [[['D1', 'D2']], [['D2'], ['A1']], [['D2']], [['D1'], ['D2']], [['D2', 'B1']]]:
        yield {'D1': b1, 'D2': b2, 'F': bf}
        if thorough:
          for b3 in ([['D2', 'C1']], [['D1'], ['D2']]):
            yield {'D1': b1, 'D2': b2, 'D3': b3, 'F': [['D3'] if bf == [['D2']] else ['D3', 'D2']]}


def shape_deps(prog, p, acc=None):
  acc = set() if acc is None else acc
  for body in prog.get(p, []):
    for q in body:
      if q not in acc: acc.add(q); shape_deps(prog, q, acc)
  return acc


def c04_make_sets(prog, thorough):
  BASES = ['A1', 'B1', 'C1']
  args = sorted(shape_deps(prog, 'F'))
  vals = BASES + ['D1', 'D1x']
  singles = [{a: v} for a in args for v in vals if v != a and a not in shape_deps(prog, v)]
  for m in singles: yield [('G', 'F', m)]
  # several arguments at once
  for a, b in itertools.combinations(args, 2):
    for va, vb in (('C1', 'A1'), ('B1', 'B1'), ('D1x', 'C1')):
      if va != a and vb != b and a not in shape_deps(prog, vb) and b not in shape_deps(prog, va):
        yield [('G', 'F', {a: va, b: vb})]
        if va != b and vb != a and a not in shape_deps(prog, va) and b not in shape_deps(prog, vb):
          yield [('G', 'F', {b: vb, a: va}, 'as-written'), ('H', 'F', {a: vb, b: va}, 'as-written')]      # arguments written in reverse order; the permuted binding next to it
          yield [('G', 'F', {a: vb, b: va}, 'as-written'), ('H', 'F', {b: vb, a: va}, 'as-written')]
  k = 5 if not thorough else 9
  for m1, m2 in itertools.product(singles[:k], singles[:k]):
    yield [('G', 'F', m1), ('H', 'F', m2)]              # the same functor twice, equal or different bindings
  for m1 in singles[:5]:
    for a in args[:3]:
      for v in BASES:
        if v != a: yield [('G', 'F', m1), ('K', 'G', {a: v})]   # functor of a functor result (a may not be an argument of G: must be an error)
  if thorough:
    for m1, m2 in itertools.product(singles[:4], singles[:4]):
      for a in args[:2]:
        yield [('G', 'F', m1), ('H', 'F', m2), ('K', 'G', {a: 'C1'})]
  # an argument that F does not depend on
  yield [('G', 'F', {'D1x': 'A1'})]
  yield [('G', 'D1', {'C1': 'A1'})] if 'C1' not in shape_deps(prog, 'D1') else [('G', 'D1', {'D1x': 'A1'})]


def c04_cases(thorough):
  dbs = dbs_u4()
  seen = set()
  for prog in c04_shapes(thorough):
    rules = [unary_rule(n, b) for n, b in prog.items()]
    for makes in c04_make_sets(prog, thorough):
      stmts = list(rules) + [Functor(mk[0], mk[1], tuple(mk[2].items()) if len(mk) > 3 else tuple(sorted(mk[2].items()))) for mk in makes]
      p = Program(stmts)
      t = p.text()
      if t in seen: continue
      seen.add(t)
      yield Case('FUNCTOR', p, list(prog) + [mk[0] for mk in makes], schema='U4', dbs=dbs, fact_dbs=[dbs[27], dbs[63]] if thorough else [dbs[39]])
  # rules that read functor results, and functors applied to such rules (the made predicate is an inner node, not a leaf)
  for fbody in ([['D1']], [['D1', 'B1']], [['D1'], ['B1']]):
    for m1 in ({'A1': 'C1'}, {'D1': 'C1'}, {'A1': 'D1x'}):
      for pbody in ([['N']], [['N', 'B1']], [['N'], ['A1']]):
        for qbody in ([['P']], [['P', 'A1']], [['P'], ['D1']], [['P'], ['A1']], [['P', 'N']]):
          base_rules = [unary_rule('D1', [['A1']]), unary_rule('F', fbody), Functor('N', 'F', tuple(sorted(m1.items()))), unary_rule('P', pbody), unary_rule('Q', qbody)]
          qdeps = {'P', 'N'} | {q for b in qbody for q in b} | {q for b in pbody for q in b}
          for a in ('A1', 'D1', 'B1', 'N', 'P', 'C1'):
            for v in ('B1', 'D1x') if thorough or a in ('A1', 'D1') else ('B1',):
              if a == v: continue
              stmts = base_rules + [Functor('K', 'Q', ((a, v),))]
              p = Program(stmts)
              t = p.text()
              if t in seen: continue
              seen.add(t)
              yield Case('FUNCTOR-DEEP', p, ['D1', 'F', 'N', 'P', 'Q', 'K'], schema='U4', dbs=dbs[::2], fact_dbs=[])
              if thorough or a == 'A1':
                p2 = Program(stmts + [Functor('L', 'K', (('B1', 'C1'),)), unary_rule('W', [['K', 'L']])])
                yield Case('FUNCTOR-DEEP', p2, ['K', 'L', 'W', 'Q'], schema='U4', dbs=dbs[::2], fact_dbs=[])
  # every syntactic position from which an intermediate predicate can call a (functional) functor argument, the argument reached
  # only through that position or also directly; predicate, constant, double and chained applications
  Lo, Hi = Call('Lo'), Call('Hi')
  r_ = V('r')
  positions = {
    'list': (('in', x, ('list', (Lo, Bin('+', Lo, N(1)), Hi))),),
    'record': (Lit('A1', y), Eq(r_, ('rec', (('a', Lo), ('b', Hi)))), Eq(x, Bin('+', Bin('+', y, ('fld', r_, 'a')), ('fld', r_, 'b')))),
    'if': (Lit('A1', y), Eq(x, ('if', Bin('>', y, Lo), Hi, y))),
    'arith': (Lit('A1', y), Eq(x, Bin('+', y, Bin('*', Lo, Hi)))),
    'cmp': (Lit('A1', x), Cmp('>=', x, Lo), Cmp('<=', x, Hi)),
    'combine': (Lit('B1', x), Cmp('<=', x, Comb('Sum', Bin('+', Lo, Bin('-', y, Hi)), (Lit('A1', y),)))),
    'combine_body': (Lit('B1', x), Cmp('>', Comb('Count', y, (Lit('A1', y), Cmp('>=', y, Lo), Cmp('<=', x, Hi))), N(0))),
    'negation': (Lit('A1', x), Not(Lit('B1', x), Cmp('>', x, Lo), Cmp('<', x, Hi))),
    'literal_arg': (Lit('A1', x), Lit('B1', Bin('-', Bin('+', x, Lo), Hi))),
    'nested_call': (Lit('A1', x), Cmp('>', Call('Wf', Lo), Bin('-', x, Hi))),
    'disjunct': (('or', ((Lit('A1', x), Cmp('<=', x, Lo)), (Lit('B1', x), Cmp('>=', x, Hi)))),),
    'implication': (Lit('A1', x), ('imp', (Lit('B1', y), Cmp('>=', y, Lo)), (Cmp('<=', y, Bin('+', x, Hi)),))),
    'list_element_of_record': (Lit('A1', y), ('in', r_, ('list', (('rec', (('a', Lo),)), ('rec', (('a', Hi),))))), Eq(x, Bin('+', y, ('fld', r_, 'a')))),
  }
  heads = {'head_expr': R('Steps', Bin('+', Bin('*', x, Lo), Hi), body=(Lit('A1', x),)), 'head_agg': R('Steps', x, Aggr('Sum', Bin('+', Bin('*', y, Lo), Hi)), body=(Lit('A1', x), Lit('B1', y)), distinct=True),
           'head_value': R('Steps', x, value=Bin('-', Hi, Lo), body=(Lit('A1', x),))}
  consts = [R('Lo', value=N(1)), R('Hi', value=N(3)), R('Lo2', value=N(2)), R('Hi2', value=N(0)), R('Wf', x, value=Bin('+', x, N(1)))]
  cdbs = [d for d in dbs_u4()[::3]]
  for pname, body in list(positions.items()) + list(heads.items()):
    steps = heads[pname] if pname in heads else R('Steps', x, body=body)
    arity2 = pname in ('head_agg', 'head_value')
    use = Lit('Steps', x, y) if pname == 'head_agg' else Lit('Steps', x, logica_value=y) if pname == 'head_value' else Lit('Steps', x)
    for direct in (False, True):
      F = R('F', x, body=(use,) + ((Cmp('>=', x, Lo),) if direct else ()))
      if arity2: F = R('F', x, y, body=(use,) + ((Cmp('>=', x, Lo),) if direct else ()))
      apps = [Functor('N', 'F', (('Lo', 'Lo2'),)), Functor('NC', 'F', (('Lo', N(2)),)), Functor('NH', 'F', (('Hi', 'Hi2'),)), Functor('NB', 'F', (('Lo', 'Lo2'), ('Hi', 'Hi2'))),
              Functor('NR', 'F', (('Hi', 'Hi2'), ('Lo', 'Lo2'))), Functor('NX', 'F', (('Hi', 'Lo2'), ('Lo', 'Hi2'))), Functor('NN', 'N', (('Hi', 'Hi2'),))]
      for sub in ([apps[0]], [apps[1], apps[2]], [apps[3], apps[4], apps[5]], [apps[0], apps[6]], [apps[5], apps[3]]):
        p = Program(consts + [steps, F] + sub)
        yield Case('FUNCTOR-POS', p, ['F', 'Steps'] + [a.new for a in sub], schema='U4', dbs=cdbs, fact_dbs=[], info=dict(position=pname, direct=direct))
  # constant arguments whose spellings are close to each other (a number and the string of its digits, strings differing in punctuation only)
  sep = [R('Sep', value=S('/')), R('Row', x, value=Bin('++', Bin('++', Call('ToString', x), Call('Sep')), S('1')), body=(Lit('A1', x),))]
  num = [R('Num0', value=N(0)), R('Plus', x, value=Bin('+', x, Call('Num0')), body=(Lit('A1', x),))]
  apps = [Functor('Comma', 'Row', (('Sep', S(',')),)), Functor('Semi', 'Row', (('Sep', S(';')),)), Functor('Under', 'Row', (('Sep', S('_')),)), Functor('Space', 'Row', (('Sep', S(' ')),)), Functor('Twelve', 'Row', (('Sep', S('12')),)),
          Functor('P12', 'Plus', (('Num0', N(12)),)), Functor('P1', 'Plus', (('Num0', N(1)),)), Functor('AB1', 'Row', (('Sep', S('a b')),)), Functor('AB2', 'Row', (('Sep', S('a_b')),)), Functor('Empty', 'Row', (('Sep', S('')),))]
  yield Case('FUNCTOR-POS', Program(sep + num + apps), [a.new for a in apps] + ['Row', 'Plus'], schema='U4', dbs=dbs_u4()[::9], fact_dbs=[], info=dict(position='close-constants', direct=True))
  yield Case('FUNCTOR-POS', Program(sep + num + apps[::-1]), [a.new for a in apps], schema='U4', dbs=dbs_u4()[::9], fact_dbs=[], info=dict(position='close-constants', direct=True))
  # constants as arguments, value-carrying functors, aggregation inside, annotated intermediate
  extra = [
    [R('Thr', value=N(2)), R('Thr1', value=N(1)), R('F', x, body=(Lit('A1', x), Cmp('>=', x, Call('Thr')))), Functor('G', 'F', (('Thr', 'Thr1'),))],
    [R('Thr', value=N(2)), R('Thr1', value=N(1)), R('D1', x, body=(Lit('A1', x), Cmp('>=', x, Call('Thr')))), R('F', x, y, body=(Lit('D1', x), Lit('B1', y))), Functor('G', 'F', (('Thr', 'Thr1'),)), Functor('H', 'F', (('Thr', 'Thr1'), ('B1', 'C1')))],
    [R('D1', x, Aggr('Count', y), body=(Lit('A1', x), Lit('B1', y)), distinct=True), R('F', x, s_, body=(Lit('D1', x, s_), Cmp('>', s_, N(0)))), Functor('G', 'F', (('B1', 'C1'),)), Functor('H', 'F', (('A1', 'C1'),))],
    [R('D1', x, body=(Lit('A1', x), Not(Lit('B1', x)))), R('F', x, body=(Lit('D1', x),)), Functor('G', 'F', (('B1', 'C1'),)), Functor('H', 'G', (('A1', 'B1'),))],
    [R('D1', x, value=Bin('+', x, N(1)), body=(Lit('A1', x),)), R('F', x, Call('D1', x), body=(Lit('B1', x),)), Functor('G', 'F', (('A1', 'C1'),))],
    [R('D1', x, body=(Lit('A1', x),)), R('F', x, s_, body=(Lit('B1', x), Eq(s_, Comb('Sum', y, (Lit('D1', y), Cmp('<=', y, x)))))), Functor('G', 'F', (('A1', 'C1'),)), Functor('H', 'F', (('D1', 'C1'),))],
    [R('D1', x, body=(Lit('A1', x),), order_by=['col0'], limit=1), R('F', x, body=(Lit('D1', x),)), Functor('G', 'F', (('A1', 'C1'),))],
    # two instantiated predicates carry annotations of the same kind: both copies must inherit theirs
    [R('D1', x, body=(Lit('A1', x),), order_by=['col0 desc'], limit=2), R('F', x, body=(Lit('D1', x),), order_by=['col0'], limit=1), Functor('G', 'F', (('A1', 'C1'),))],
    [R('D1', x, body=(Lit('A1', x),)), R('F', x, body=(('or', ((Lit('D1', x),), (Lit('B1', x),))),)), Ann('@OrderBy(F, "col0 desc");'), Ann('@Limit(F, 2);'), Ann('@OrderBy(D1, "col0");'), Ann('@Limit(D1, 1);'), Functor('G', 'F', (('A1', 'C1'),))],
    [R('D1', x, body=(Lit('A1', x),)), R('F', x, body=(('or', ((Lit('D1', x),), (Lit('B1', x),))),)), Ann('@OrderBy(D1, "col0");'), Ann('@Limit(D1, 1);'), Ann('@OrderBy(F, "col0 desc");'), Ann('@Limit(F, 2);'), Functor('G', 'F', (('A1', 'C1'),))],
  ]
  # a grounded intermediate inside a functor applied twice: default table name (one table per copy) and an explicit one (finding F44)
  for ann, fam in (('@Ground(D1);', 'FUNCTOR-X'), ('@Ground(D1, "logica_test.gtable");', 'FUNCTOR-GROUND-EXPLICIT')):
    stmts = [Ann(ann), R('D1', x, body=(Lit('A1', x),)), R('F', x, body=(Lit('D1', x),)), Functor('G', 'F', (('A1', 'B1'),)), Functor('H', 'F', (('A1', 'C1'),)), R('Q', x, y, body=(Lit('G', x), Lit('H', y)))]
    yield Case(fam, Program(stmts), ['Q', 'G', 'H', 'F'], schema='U4', dbs=dbs[::3], fact_dbs=[])
  for stmts in extra:
    p = Program(stmts)
    preds = [pp for pp in p.defined() if pp not in ('Thr', 'Thr1')]
    limited = any(getattr(s, 'limit', None) is not None for s in stmts) or any(isinstance(s, Ann) and '@Limit' in s.text for s in stmts)
    dbs2 = dbs if not limited else [d for d in dbs if all(len(set(v)) == len(v) for v in d.values()) and not (set(d['A1']) & set(d['B1']))]
    yield Case('FUNCTOR-X', p, preds, schema='U4', dbs=dbs2, fact_dbs=[])


# ======================================================================================== C18 order_by / limit
def dbs_c18():
  dom = [(a, b) for a in (1, 2, 3) for b in (1, 2)]
  out = []
  for n in range(0, 5):
    for rows in itertools.combinations(dom, n):
      for b in ([(1,), (2,)], [(2,), (3,), (3,)]):
        # rows arrive in a scrambled order so that ORDER BY has something to do
        rr = list(rows); rr = rr[1::2] + rr[0::2][::-1]
        out.append({'A': rr, 'B': b})
  return out


C18_BODIES = [
  ((x, y), (Lit('A', x, y),)),
  ((x, y), (Lit('A', x, y), Lit('B', y))),
  ((y, x), (Lit('A', x, y),)),
  ((x, Bin('*', y, N(10))), (Lit('A', x, y),)),
  ((x, y), (('or', ((Lit('A', x, y), Cmp('<', x, N(2))), (Lit('A', x, y), Cmp('>=', x, N(2))))),)),
  ((x, y), (Lit('A', x, y), Not(Lit('B', x)))),
  ((Bin('+', x, y), y), (Lit('A', x, y),)),
  ((x, y), (Lit('A', x, z), Eq(y, Bin('-', N(5), z)))),
]
C18_ORDERS = [['col0', 'col1'], ['col0 desc', 'col1'], ['col1 desc', 'col0'], ['col0', 'DESC', 'col1', 'DESC'], ['col1', 'col0 desc'], ['col0 desc', 'col1 desc'], ['col1', 'DESC', 'col0']]


def c18_cases(thorough):
  dbs = dbs_c18()
  Ks = [None, 0, 1, 2, 3, 5]
  bodies = C18_BODIES if thorough else C18_BODIES[:5]
  orders = C18_ORDERS if thorough else C18_ORDERS[:4]
  # a limit without order_by: which rows are kept is unspecified, except for K = 0 (none) and K >= number of rows (all)
  for (head, body) in bodies[:3]:
    for K in (0, 5):
      for form in ('denot', 'ann'):
        P = [R('P', *head, body=body, limit=K)] if form == 'denot' else [R('P', *head, body=body), Ann('@Limit(P, %d);' % K)]
        for use, extra, preds in (('final', [], ['P']), ('plain', [R('T', x, y, body=(Lit('P', x, y),))], ['T']), ('agg', [R('T', x, Aggr('Count', y), body=(Lit('P', x, y),), distinct=True)], ['T']),
                                  ('negated', [R('T', z, body=(Lit('B', z), Not(Lit('P', z, y))))], ['T'])):
          c = Case('ORD/nolimit-order/' + use, Program(P + extra), preds, dbs=dbs, fact_dbs=[dbs[37]], info=dict(K=K, order=[], form=form, use=use, ordered=False))
          c.ol = {'P': ([], K)} if form == 'ann' else None
          yield c
  for (head, body), order in itertools.product(bodies, orders):
    for K in Ks:
      for form in ('denot', 'ann'):
        if form == 'denot':
          P = [R('P', *head, body=body, order_by=order, limit=K)]
          ol = None
        else:
          P = [R('P', *head, body=body), Ann('@OrderBy(P, %s);' % ', '.join('"%s"' % o for o in order))]
          if K is not None: P.append(Ann('@Limit(P, %d);' % K))
          ol = {'P': (order, K)}
        uses = {
          'final': ([], ['P'], True),
          'plain': ([R('T', x, y, body=(Lit('P', x, y),))], ['T'], False),
          'join': ([R('T', x, z, body=(Lit('P', x, y), Lit('B', z), Cmp('<=', z, x)))], ['T'], False),
          'agg': ([R('T', x, Aggr('Sum', y), Aggr('Count', y), body=(Lit('P', x, y),), distinct=True)], ['T'], False),
          'combine': ([R('T', z, s_, body=(Lit('B', z), Eq(s_, Comb('Sum', y, (Lit('P', x, y), Cmp('>=', x, z))))))], ['T'], False),
          'negated': ([R('T', z, body=(Lit('B', z), Not(Lit('P', z, y))))], ['T'], False),
          'self_join': ([R('T', x, z, body=(Lit('P', x, y), Lit('P', z, V('w')), Cmp('<=', x, z)))], ['T'], False),
          'two_readers': ([R('Q1', x, body=(Lit('P', x, y),)), R('Q2', y, body=(Lit('P', x, y),)), R('T', x, y, body=(Lit('Q1', x), Lit('Q2', y)))], ['T'], False),
          'reader_and_direct': ([R('Q1', x, body=(Lit('P', x, y),)), R('T', x, z, body=(Lit('Q1', x), Lit('P', z, y)))], ['T'], False),
          'functor': ([R('F', x, y, body=(Lit('P', x, y),)), R('A2', x, y, body=(Lit('A', y, x),)), Functor('G', 'F', (('A', 'A2'),))], ['G'], False),
          # one functor application copies TWO ordered / limited predicates (the applicant and the intermediate): both copies keep their annotations
          'functor_two_annotated': ([R('F', x, y, body=(Lit('P', x, y),), order_by=['col1 desc', 'col0 desc'], limit=1), R('A2', x, y, body=(Lit('A', y, x),)), Functor('G', 'F', (('A', 'A2'),)), R('T', x, y, body=(Lit('G', x, y),))], ['G', 'T', 'F'], False),
        }
        for use, (extra, preds, ordered) in uses.items():
          if use in ('functor', 'functor_two_annotated') and (K is None or form == 'denot' and not thorough): continue
          if use in ('negated', 'join', 'two_readers', 'reader_and_direct') and not thorough and form == 'ann': continue
          c = Case('ORD/' + use, Program(P + extra), preds, dbs=dbs, fact_dbs=[dbs[37]], info=dict(K=K, order=order, form=form, use=use, ordered=ordered))
          c.ol = ol
          yield c


  # 11 ordering keys (positions with two digits): the first key ties on every row, the second (col1 = x) and the tenth (col9 = -x) disagree
  wide_head = (N(7), x, y, Bin('+', x, y), N(0), Bin('*', x, N(2)), N(1), Bin('-', y, x), N(3), Bin('-', N(0), x), Bin('-', N(0), y))
  wide_orders = [['col%d' % i for i in range(11)], ['col0', 'col4', 'col6', 'col8', 'col1 desc', 'col2', 'col3', 'col5', 'col7', 'col9', 'col10'],
                 ['col0', 'DESC', 'col4', 'col6', 'col8', 'col10', 'DESC', 'col9', 'col1', 'col2', 'col3', 'col5', 'col7']]
  vs = [V('v%d' % i) for i in range(11)]
  for order in wide_orders:
    for K in (None, 1, 2, 3):
      for form in ('denot', 'ann'):
        if form == 'denot':
          P = [R('P', *wide_head, body=(Lit('A', x, y),), order_by=order, limit=K)]; ol = None
        else:
          P = [R('P', *wide_head, body=(Lit('A', x, y),)), Ann('@OrderBy(P, %s);' % ', '.join('"%s"' % o for o in order))]
          if K is not None: P.append(Ann('@Limit(P, %d);' % K))
          ol = {'P': (order, K)}
        for use, extra, preds, ordered in (('final', [], ['P'], True), ('plain', [R('T', vs[1], vs[2], vs[9], body=(Lit('P', *vs),))], ['T'], False),
                                           ('agg', [R('T', vs[0], Aggr('Sum', vs[1]), Aggr('List', vs[10]), body=(Lit('P', *vs),), distinct=True)], ['T'], False)):
          if use == 'agg' and K is None: continue
          c = Case('ORD/wide/' + use, Program(P + extra), preds, dbs=dbs, fact_dbs=[dbs[37]], info=dict(K=K, order=order, form=form, use=use, ordered=ordered))
          c.ol = ol
          yield c


# ======================================================================================== C08 plan annotations
PLAN_ANNS = [None, '@NoInject(%s);', '@With(%s);', '@NoWith(%s);', '@Ground(%s);', '@NoInject(%s); @NoWith(%s);', '@NoInject(%s); @With(%s);', '@Ground(%s, overwrite: false);']


def c08_shapes(thorough):
  D = lambda *a, **k: R(*a, distinct=True, **k)
  S = {}
  S['chain'] = ([R('P', x, y, body=(Lit('A', x, y), Cmp('<=', x, y), Cmp('>', y, N(1)), Cmp('!=', Bin('+', x, y), N(5)))), R('Q', x, y, body=(Lit('P', x, y), Lit('B', y))), R('T', x, body=(Lit('Q', x, y),))], ['P', 'Q'])
  S['diamond'] = ([R('P', x, y, body=(Lit('A', x, y),)), R('Q', x, body=(Lit('P', x, y),)), R('S', y, body=(Lit('P', x, y), Lit('B', x))), R('T', x, y, body=(Lit('Q', x), Lit('S', y)))], ['P', 'Q', 'S'])
  S['twice'] = ([R('P', x, y, body=(Lit('A', x, y),)), R('T', x, z, body=(Lit('P', x, y), Lit('P', y, z)))], ['P'])
  S['combine_neg'] = ([R('P', x, y, body=(Lit('A', x, y), Lit('B', x))), R('Q', x, body=(Lit('A', x, x),)),
                       R('T', x, s_, body=(Lit('B', x), Eq(s_, Comb('Sum', y, (Lit('P', x, y),))), Not(Lit('Q', x))))], ['P', 'Q'])
  S['aggregating'] = ([R('P', x, named={'s': Aggr('Sum', y)}, body=(Lit('A', x, y),), distinct=True), R('Q', x, body=(Lit('P', x, s=s_), Cmp('>', s_, N(1)))), R('T', x, s_, body=(Lit('Q', x), Lit('P', x, s=s_)))], ['P', 'Q'])
  S['two_rules'] = ([R('P', x, body=(Lit('A', x, y),)), R('P', x, body=(Lit('B', x),)), R('Q', x, Bin('+', x, N(1)), body=(Lit('P', x),)), R('T', x, y, body=(Lit('Q', x, y), Lit('P', y)))], ['P', 'Q'])
  S['recursive_consumer'] = ([R('P', x, y, body=(Lit('A', x, y), Cmp('!=', x, y))), D('C', x, y, body=(Lit('P', x, y),)), D('C', x, z, body=(Lit('C', x, y), Lit('P', y, z))), R('T', x, y, body=(Lit('C', x, y),)), Ann('@Recursive(C, 2);')], ['P'])
  S['neg_multi_rule'] = ([R('P', x, body=(Lit('A', x, y),)), R('P', y, body=(Lit('A', x, y), Cmp('<', x, y))), R('Q', x, y, body=(Lit('A', y, x),)),
                          R('T', x, s_, body=(Lit('B', x), Not(Lit('P', x)), Eq(s_, Comb('Count', y, (Lit('Q', x, y), Not(Lit('P', y)))))))], ['P', 'Q'])
  S['constant_heads'] = ([R('P', N(1), x, body=(Lit('B', x), Cmp('<', x, N(2)))), R('Q', N(2), x, body=(Lit('B', x),)), R('T', x, body=(Lit('P', N(2), x),)),
                          R('U', x, y, body=(Lit('P', z, x), Lit('Q', z, y))), R('W', x, body=(Lit('Q', N(2), x), Lit('P', N(1), x)))], ['P', 'Q'])
  S['all_injected_away'] = ([R('P', N(2)), R('Q', N(1)), R('F', x, body=(Cmp('<', x, N(2)),)), R('T', x, body=(Lit('P', x), Lit('F', x))), R('U', x, y, body=(Lit('P', x), Lit('Q', y), Cmp('<', x, y))),
                             R('W', x, body=(Lit('Q', x), Lit('F', x)))], ['P', 'Q'])
  S['limited_intermediate'] = ([R('P', x, y, body=(Lit('A', x, y),), limit=0), R('Q', x, body=(Lit('B', x),), limit=7), R('T', x, body=(Lit('P', x, y), Lit('B', y))), R('U', x, body=(Lit('Q', x), Not(Lit('P', x, x)))),
                                R('W', x, Aggr('Count', y), body=(Lit('B', x), Lit('P', x, y)), distinct=True)], ['P', 'Q'])
  S['functional'] = ([R('P', x, value=y, body=(Lit('A', x, y),)), R('Q', x, value=Bin('+', Call('P', x), N(1)), body=(Lit('B', x),)), R('T', x, Call('Q', x), body=(Lit('B', x),))], ['P', 'Q'])
  # longer chains (plans with 4 and 6 intermediates), with a reduced annotation alphabet: none / @NoInject / @With+@NoInject / @Ground
  def long_chain(k):
    rs = [R('P0', x, y, body=(Lit('A', x, y),))]
    for i in range(1, k):
      rs.append(R('P%d' % i, y, x, body=(Lit('P%d' % (i - 1), x, y),)) if i % 2 else R('P%d' % i, x, Bin('+', y, N(1)), body=(Lit('P%d' % (i - 1), x, y), Lit('B', x))))
    return rs + [R('T', x, y, body=(Lit('P%d' % (k - 1), x, y), Lit('P%d' % (k // 2), y, z)))]
  # a 13-column intermediate addressed by two-digit colN names, and numeric constants in the head of an intermediate that a consumer groups by
  wcols = [x, y, Bin('+', x, y), N(3), Bin('*', x, N(10)), Bin('-', y, x), N(6), Bin('+', y, N(7)), x, Bin('*', y, y), Bin('+', x, N(10)), Bin('+', y, N(11)), Bin('-', N(12), x)]
  v10, v11, v12, v1 = V('v10'), V('v11'), V('v12'), V('v1')
  S['wide_named_columns'] = ([R('P', *wcols, body=(Lit('A', x, y),)), R('T', v10, v1, body=(Lit('P', col10=v10, col1=v1),)), R('U', v12, v11, body=(Lit('P', col12=v12, col11=v11, col3=N(3)), Cmp('>', v11, N(12)))),
                              R('W', x, body=(Lit('B', x), Lit('P', col10=Bin('+', x, N(10)), col0=x)))], ['P'])
  k_ = V('k')
  S['grouped_constant'] = ([R('P', N(0), x, body=(Lit('B', x),)), R('Q', N(7), x, y, body=(Lit('A', x, y),)), R('T', k_, Aggr('Sum', y), body=(Lit('Q', k_, x, y),), distinct=True),
                            R('U', k_, Aggr('Count', x), body=(Lit('P', k_, x),), distinct=True), R('W', z, named={'m': Aggr('Max', x)}, body=(Lit('P', k_, x), Eq(z, Bin('-', k_, N(4)))), distinct=True)], ['P', 'Q'])
  rchain = ('if', Bin('>', x, N(1)), ('rec', (('a', x), ('b', lang.S('big')))), ('if', Bin('==', x, N(1)), ('rec', (('a', Bin('-', N(0), x)), ('b', lang.S('mid')))), ('rec', (('a', N(0)), ('b', lang.S('small'))))), 'flat')
  S['record_if_argument'] = ([R('P', x, rchain, body=(Lit('B', x),)), R('T', x, ('fld', V('r'), 'a'), ('fld', V('r'), 'b'), body=(Lit('P', x, V('r')),)), R('U', x, ('fld', V('r'), 'b'), body=(Lit('P', x, V('r')), Cmp('>', ('fld', V('r'), 'a'), N(0)))),
                                 R('W', x, V('a'), V('b'), body=(Lit('P', x, V('r')), Eq(V('a'), ('fld', V('r'), 'a')), Eq(V('b'), ('fld', V('r'), 'b'))))], ['P'])
  # two independent chains of WITH-compiled predicates (multi-rule base -> aggregate) shared by a grounded statement and the main query
  S['two_with_chains_under_ground'] = ([R('A0', x, body=(Lit('B', x),)), R('A0', x, body=(Lit('A', x, y),)), D('Aq', x, Aggr('Count', x), body=(Lit('A0', x),)),
                                        R('B0', y, body=(Lit('A', x, y),)), R('B0', x, body=(Lit('B', x), Cmp('>', x, N(0)))), D('Bq', x, Aggr('Sum', x), body=(Lit('B0', x),)),
                                        R('G', x, body=(Lit('Aq', x, y), Lit('Bq', x, z))), R('T', x, y, z, body=(Lit('G', x), Lit('Aq', x, y), Lit('Bq', x, z))), R('U', x, z, body=(Lit('G', x), Lit('Bq', x, z)))], ['G'])
  S['chain4'] = (long_chain(4), ['P0', 'P1', 'P2', 'P3'], (0, 1, 6, 4))
  if thorough:
    S['chain6'] = (long_chain(6), ['P%d' % i for i in range(6)], (0, 1, 4))
    S['three_chain'] = ([R('P', x, y, body=(Lit('A', x, y),)), R('Q', x, y, body=(Lit('P', y, x),)), R('S', x, body=(Lit('Q', x, y), Lit('B', y))), R('T', x, body=(Lit('S', x), Not(Lit('P', x, x))))], ['P', 'Q', 'S'])
    S['disjunctive_use'] = ([R('P', x, y, body=(Lit('A', x, y),)), R('Q', x, body=(Lit('B', x),)), R('T', x, body=(('or', ((Lit('P', x, y), Lit('Q', y)), (Lit('Q', x), Not(Lit('P', x, x))))),))], ['P', 'Q'])
  return S


def c08_row_capture_cases():
  """whole-row capture `P(..r)` (needs type inference on SQLite): raw program text, reference rules with the record written out; P under every plan"""
  raws = [
    ('P(shop: x) = y :- A(x, y);', 'T(r.shop, r.logica_value) :- P(..r);\nU(r) :- P(..r);',
     [R('T', x, y, body=(Lit('A', x, y),)), R('U', ('rec', (('shop', x), ('logica_value', y))), body=(Lit('A', x, y),))], ['T', 'U']),
    ('P(a: x, b: y, c: x + y) :- A(x, y);', 'T(r.c, r.a) :- P(..r), r.b > 1;\nU(r) :- P(..r);',
     [R('T', Bin('+', x, y), x, body=(Lit('A', x, y), Cmp('>', y, N(1)))), R('U', ('rec', (('a', x), ('b', y), ('c', Bin('+', x, y)))), body=(Lit('A', x, y),))], ['T', 'U']),
  ]
  # two captures of the same 11-column rows, one through P (planned every way), one through the table-compiled Q: equal rows must be equal records
  wide = ', '.join(['x', 'y'] * 5 + ['x + y'])
  x2, y2 = V('x2'), V('y2')
  raws.append(('P(%s) :- A(x, y);\nQ(%s) :- A(x, y);\n@NoInject(Q);' % (wide, wide), 'T(k, c? += 1) distinct :- P(..r), Q(..s), r == s, k == 1;',
               [R('T', N(1), named={'c': Aggr('Sum', N(1))}, body=(Lit('A', x, y), Lit('A', x2, y2), Cmp('==', x, x2), Cmp('==', y, y2)), distinct=True)], ['T']))
  for pdef, users, ref, preds in raws:
    for ai, ann in enumerate(PLAN_ANNS):
      stmts = ([Ann(ann.replace('%s', 'P'))] if ann else []) + [Ann(pdef), Ann(users)]
      c = Case('PLAN/row_capture', Program(stmts, type_checking=True), preds, dbs=dbs_ab(2)[::3], fact_dbs=[], info=dict(shape='row_capture', assign=(ai,), depth=2))
      c.prepared = ref
      yield c


def c08_cases(thorough):
  for c in c08_row_capture_cases(): yield c
  dbs = dbs_ab(2)
  for name, spec in c08_shapes(thorough).items():
    rules, inter = spec[0], spec[1]
    alphabet = spec[2] if len(spec) > 2 else range(len(PLAN_ANNS))
    for assign in itertools.product(alphabet, repeat=len(inter)):
      anns = [Ann(PLAN_ANNS[a].replace('%s', p)) for a, p in zip(assign, inter) if PLAN_ANNS[a]]
      preds = ['T'] + list(inter) + [p for p in ('U', 'W') if any(isinstance(r, Rule) and r.pred == p for r in rules)]
      c = Case('PLAN/' + name, Program(anns + rules), preds, dbs=dbs, fact_dbs=[FACT_DBS_AB[2]], info=dict(shape=name, assign=assign, depth=2))
      if name == 'recursive_consumer': c.depths = {'C': 2}
      yield c
