"""Known findings: /verif/known_findings.json, committed, never written at run time.
Entry: {id, property, status: "known"|"fixed", sig: exact signature computed by the check, what, witness, site}.
Only status=="known" entries suppress a VIOLATION (turning it into a KNOWN-FINDING line)."""
import json, os

VERIF = os.path.dirname(os.path.dirname(os.path.abspath(__file__)))

def load(pid):
  p = os.path.join(VERIF, 'known_findings.json')
  if not os.path.exists(p): return []
  return [e for e in json.load(open(p))['findings'] if e['property'] == pid and e.get('status') == 'known']

def match(known, v):
  for e in known:
    if e['sig'] == v['sig']: return e
  return None
