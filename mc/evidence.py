"""Writes /verif/evidence/<ID>.json in the shape of EVIDENCE.schema.json (hand-checked here; the
self-test tools/validate_evidence.py validates with jsonschema under python3-vt)."""
import json, os

VERIF = os.path.dirname(os.path.dirname(os.path.abspath(__file__)))

def write(pid, tier, seed, level, coverage, assumptions, wall_s, violations):
  cov = dict(coverage)
  for k in ('states', 'transitions', 'traces_validated_against_impl', 'evaluations', 'distinct_nontrivial'):
    if k in cov: cov[k] = int(cov[k])
  assert isinstance(cov.get('samples'), list) and cov['samples'], 'evidence needs samples'
  if level == 'model_checking':
    assert cov.get('states', 0) >= 1 and cov.get('transitions', 0) >= 1, cov
    assert 'traces_validated_against_impl' in cov
  else:
    assert cov.get('evaluations', 0) >= 1 and cov.get('distinct_nontrivial', 0) >= 2 and 'rule' in cov, cov
  doc = dict(property_id=pid, tier=tier, seed=int(seed), level=level, coverage=cov,
             assumptions=list(assumptions), wall_s=round(float(wall_s), 2), violations=int(violations))
  d = os.path.join(VERIF, 'evidence'); os.makedirs(d, exist_ok=True)
  tmp = os.path.join(d, pid + '.json.tmp')
  with open(tmp, 'w') as f:
    json.dump(doc, f, indent=1, default=str)
  os.replace(tmp, os.path.join(d, pid + '.json'))
