"""Entry point: python -m mc.runner <ID> [--tier quick|thorough] [--replay FILE] [--workers N].

A check module (mc/checks/cNN.py) provides
  PID, LEVEL, TECHNIQUE
  plan(ctx)            -> list of picklable tasks (the complete enumeration of the tier, cut in shards)
  work(task)           -> dict(stats={name:int}, viol=[{sig,what,case}], samples=[...], keys={name:[hashable]})
  coverage(ctx, merged)-> coverage dict for the evidence file (counts measured in this run)
  replay(ctx, case)    -> list of violations for one recorded case
The runner owns: sharding over forked workers, merging, known-findings matching, replay files,
the VIOLATION / KNOWN-FINDING lines, the evidence file and the exit status.
"""
import argparse, importlib, json, os, sys, time, hashlib, random, traceback
from . import explore, evidence, findings

VERIF = os.path.dirname(os.path.dirname(os.path.abspath(__file__)))


class Ctx:
  def __init__(self, tier, seed, workers, repo):
    self.tier = tier; self.seed = seed; self.workers = workers; self.repo = repo
    self.thorough = tier == 'thorough'
    self.t0 = time.time()

  def pick(self, quick, thorough):
    return thorough if self.thorough else quick


def merge(results):
  stats = {}; viol = []; samples = []; keys = {}; extra = {}
  for r in results:
    for k, v in r.get('stats', {}).items():
      stats[k] = stats.get(k, 0) + v
    viol.extend(r.get('viol', []))
    for s in r.get('samples', []):
      if len(samples) < 12: samples.append(s)
    for k, v in r.get('keys', {}).items():
      keys.setdefault(k, set()).update(v)
    for k, v in r.get('max', {}).items():
      extra[k] = max(extra.get(k, v), v)
  return dict(stats=stats, viol=viol, samples=samples, keys=keys, max=extra)


def main(argv=None):
  ap = argparse.ArgumentParser()
  ap.add_argument('pid')
  ap.add_argument('--tier', default=os.environ.get('VERIF_TIER', 'quick'), choices=['quick', 'thorough'])
  ap.add_argument('--replay')
  ap.add_argument('--workers', type=int, default=int(os.environ.get('VERIF_WORKERS', '16')))
  ap.add_argument('--no-evidence', action='store_true')
  a = ap.parse_args(argv)
  pid = a.pid.upper()
  seed = int(os.environ.get('VERIF_SEED', '0') or 0)
  repo = os.environ.get('VERIF_REPO', '/repo')
  ctx = Ctx(a.tier, seed, a.workers, repo)
  from . import impl
  impl.setup(repo)
  mod = importlib.import_module('mc.checks.' + pid.lower())

  if a.replay:
    case = json.load(open(a.replay))
    vs = mod.replay(ctx, case['case'])
    known = findings.load(pid)
    new = [v for v in vs if findings.match(known, v) is None]
    for v in vs:
      print('replay:', v['sig'], '-', v['what'])
    if new:
      print('VIOLATION property=%s replay=%s' % (pid, a.replay))
      return 1
    print('replay of %s: no unlisted violation reproduced' % a.replay)
    return 0

  tasks = mod.plan(ctx)
  rnd = random.Random(seed)
  rnd.shuffle(tasks)
  results = explore.pmap(mod.work, tasks, min(ctx.workers, getattr(mod, 'WORKERS', ctx.workers)))
  failed = [r for r in results if r.get('crash')]
  merged = merge(results)
  for r in failed:
    merged['viol'].append(dict(sig='harness-crash', what='worker crashed: ' + r['crash'][-400:], case=r.get('task')))
  if hasattr(mod, 'post'):
    mod.post(ctx, merged)
  cov = mod.coverage(ctx, merged)
  wall = time.time() - ctx.t0

  known = findings.load(pid)
  by_sig = {}
  for v in merged['viol']:
    by_sig.setdefault(v['sig'], []).append(v)
  n_new = 0; n_known = 0; lines = []
  for sig, vs in sorted(by_sig.items()):
    k = findings.match(known, vs[0])
    if k is not None:
      n_known += 1
      lines.append('KNOWN-FINDING: property=%s %s (%s; %d occurrences in this run)' % (pid, k['id'], k['what'], len(vs)))
      continue
    n_new += 1
    vs.sort(key=lambda v: len(json.dumps(v.get('case'), default=str)))
    v = vs[0]
    d = os.path.join(VERIF, 'replays', pid); os.makedirs(d, exist_ok=True)
    h = hashlib.sha1((sig + json.dumps(v.get('case'), sort_keys=True, default=str)).encode()).hexdigest()[:12]
    path = os.path.join(d, h + '.json')
    with open(path, 'w') as f:
      json.dump(dict(property=pid, sig=sig, what=v['what'], occurrences=len(vs), case=v.get('case')), f, indent=1, default=str)
    if n_new <= 25:
      lines.append('  [%s] x%d %s' % (sig, len(vs), v['what'][:600]))
      lines.append('VIOLATION property=%s replay=%s' % (pid, path))
  cov.setdefault('known_findings_reconfirmed', n_known)
  if not a.no_evidence:
    evidence.write(pid, a.tier, seed, mod.LEVEL, cov, getattr(mod, 'ASSUMPTIONS', []), wall, n_new)
  print('%s tier=%s seed=%d wall=%.1fs %s' % (pid, a.tier, seed, wall,
        ' '.join('%s=%s' % (k, v) for k, v in cov.items() if isinstance(v, (int, float, bool)))))
  for l in lines: print(l)
  return 1 if n_new else 0


if __name__ == '__main__':
  try:
    sys.exit(main())
  except SystemExit:
    raise
  except BaseException:
    traceback.print_exc()
    sys.exit(2)
