"""Sharded execution of an enumeration over forked workers, and a generic BFS for the state machines."""
import multiprocessing as mp, os, traceback, collections

_FUNC = None

def _call(task):
  try:
    return _FUNC(task)
  except BaseException:
    return dict(crash=traceback.format_exc(), task=repr(task)[:500])

def pmap(func, tasks, workers):
  """Run func over all tasks (every task is executed; nothing is sampled). Returns the list of results."""
  global _FUNC
  _FUNC = func
  if workers <= 1 or len(tasks) <= 1:
    return [_call(t) for t in tasks]
  ctx = mp.get_context('fork')
  with ctx.Pool(min(workers, len(tasks))) as pool:
    return list(pool.imap_unordered(_call, tasks, chunksize=1))

def shards(items, n):
  """Cut a list in n interleaved shards (all items kept)."""
  items = list(items)
  return [items[i::n] for i in range(n) if items[i::n]]

def bfs(initial, successors, canon, invariant, max_depth):
  """Explicit-state BFS. A state is identified with the history (tuple of events) that first reached it.
  successors(hist) -> iterable of (event, observation); canon(hist) -> hashable state key;
  invariant(hist, event, obs) -> None or violation. Returns dict(states, transitions, depth, violations)."""
  seen = {canon(initial)}
  frontier = collections.deque([initial]); transitions = 0; viol = []; depth = 0
  while frontier:
    hist = frontier.popleft()
    if len(hist) >= max_depth: continue
    for ev, obs in successors(hist):
      transitions += 1
      v = invariant(hist, ev, obs)
      if v: viol.append(v)
      nxt = hist + (ev,)
      k = canon(nxt)
      if k not in seen:
        seen.add(k); frontier.append(nxt); depth = max(depth, len(nxt))
  return dict(states=len(seen), transitions=transitions, depth=depth, violations=viol)
