"""Ground types of generated programs (the model knows them by construction): a small bottom-up typing of the program
model used by C05. Types: 'Num' | 'Str' | 'Bool' | ('list', t) | ('rec', ((field, t), ...)) | None (unknown)."""
from . import lang
from .lang import Rule


def fcol(f):
  if isinstance(f, tuple): return f[1]
  return 'col%d' % f if isinstance(f, int) else f


class TypeClash(Exception): pass
class Unknown(Exception): pass


def render(t):
  if t is None: return 'Any'
  if isinstance(t, str): return t
  if t[0] == 'list': return '[%s]' % render(t[1])
  if t[0] == 'rec': return '{%s}' % ', '.join('%s: %s' % (f, render(x)) for f, x in sorted(t[1], key=lambda kv: ('%03d' % kv[0]) if isinstance(kv[0], int) else str(kv[0])))
  raise ValueError(t)


def unify(a, b):
  if a is None: return b
  if b is None: return a
  if a == b: return a
  if isinstance(a, tuple) and isinstance(b, tuple) and a[0] == b[0] == 'list': return ('list', unify(a[1], b[1]))
  raise TypeClash('%s vs %s' % (render(a), render(b)))


class Typer:
  def __init__(self, rules, base_sigs):
    self.rules_of = {}
    for r in rules: self.rules_of.setdefault(r.pred, []).append(r)
    self.sigs = dict(base_sigs)      # pred -> {column: type}
    self.busy = set()

  def sig(self, pred):
    if pred in self.sigs: return self.sigs[pred]
    if pred in self.busy: raise Unknown('recursive')
    self.busy.add(pred)
    out = {}
    for r in self.rules_of.get(pred, []):
      env = self.body_env(r.body or ())
      for f, e in r.args:
        c = fcol(f)
        out[c] = unify(out.get(c), self.head_type(e, env))
      if r.value is not None: out['logica_value'] = unify(out.get('logica_value'), self.head_type(r.value, env))
    self.busy.discard(pred)
    self.sigs[pred] = out
    return out

  def head_type(self, e, env):
    if e[0] == 'aggr': return self.agg_type(e[1], self.etype(e[2], env))
    return self.etype(e, env)

  def agg_type(self, op, t):
    if op in ('Sum', '+', 'Avg', 'Count'): return 'Num'
    if op in ('Min', 'Max'): return t
    if op in ('List', 'Set'): return ('list', t)
    if op in ('ArgMin', 'ArgMax'): return t[1][0][1] if isinstance(t, tuple) and t[0] == 'arrow' else None
    raise Unknown(op)

  def body_env(self, body, env=None):
    env = dict(env or {})
    for _ in range(4):
      for p in body: self.prop(p, env)
    return env

  def bind(self, env, v, t):
    if t is None: return
    env[v] = unify(env.get(v), t)

  def prop(self, p, env):
    t = p[0]
    if t == 'lit':
      s = self.sig(p[1])
      for f, x in p[2]:
        c = fcol(f)
        ct = s.get(c)
        if x[0] == 'v': self.bind(env, x[1], ct)
        else:
          try: unify(self.etype(x, env), ct)
          except Unknown: pass
    elif t == 'eq':
      a, b = p[1], p[2]
      for x, y in ((a, b), (b, a)):
        if x[0] == 'v':
          try: self.bind(env, x[1], self.etype(y, env))
          except Unknown: pass
        if x[0] == 'rec':
          try:
            ty = self.etype(y, env)
            if isinstance(ty, tuple) and ty[0] == 'rec':
              d = dict(ty[1])
              for f, z in x[1]:
                if z[0] == 'v' and f in d: self.bind(env, z[1], d[f])
          except Unknown: pass
    elif t == 'in':
      try:
        lt = self.etype(p[2], env)
        if p[1][0] == 'v' and isinstance(lt, tuple) and lt[0] == 'list': self.bind(env, p[1][1], lt[1])
      except Unknown: pass
    elif t == 'aggeq':
      try: self.bind(env, p[1], self.agg_type(p[2], self.etype(p[3], self.body_env(p[4], env))))
      except Unknown: pass
    elif t == 'or':
      for b in p[1]:
        e2 = self.body_env(b, env)
        for k, v in e2.items(): self.bind(env, k, v)
    elif t in ('not', 'imp', 'cmp'):
      pass

  def etype(self, e, env):
    t = e[0]
    if t == 'v':
      if e[1] not in env: raise Unknown(e[1])
      return env[e[1]]
    if t == 'n': return 'Num'
    if t == 's': return 'Str'
    if t == 'b': return 'Bool'
    if t == 'null': return None
    if t == 'bin':
      op = e[1]
      if op in ('+', '-', '*', '/', '%'): return 'Num'
      if op == '++': return 'Str'
      return 'Bool'
    if t == 'un': return 'Num' if e[1] == '-' else 'Bool'
    if t in ('isnull', 'inx'): return 'Bool'
    if t == 'list':
      et = None
      for x in e[1]: et = unify(et, self.etype(x, env))
      return ('list', et)
    if t == 'rec': return ('rec', tuple((f if not isinstance(f, tuple) else f[1], self.etype(x, env)) for f, x in e[1]))
    if t == 'fld':
      rt = self.etype(e[1], env)
      if isinstance(rt, tuple) and rt[0] == 'rec': return dict(rt[1])[e[2]]
      raise Unknown('fld')
    if t == 'elem':
      lt = self.etype(e[1], env)
      if isinstance(lt, tuple) and lt[0] == 'list': return lt[1]
      raise Unknown('elem')
    if t == 'if': return unify(self.etype(e[2], env), self.etype(e[3], env))
    if t == 'arrow': return ('arrow', ((0, self.etype(e[1], env)), (1, self.etype(e[2], env))))
    if t == 'call':
      name = e[1]
      if name in self.rules_of or name in self.sigs: return self.sig(name).get('logica_value')
      if name in ('Size', 'ToInt64', 'Abs'): return 'Num'
      if name == 'ToString': return 'Str'
      if name in ('Greatest', 'Least'): return self.etype(e[2][0][1], env)
      if name == 'Range': return ('list', 'Num')
      if name == 'Element':
        lt = self.etype(e[2][0][1], env)
        return lt[1] if isinstance(lt, tuple) else None
      raise Unknown(name)
    if t == 'comb':
      inner = self.body_env(e[3], env)
      return self.agg_type(e[1], self.etype(e[2], inner))
    raise Unknown(t)


def signatures(program_rules, base_sigs):
  """-> {pred: {column: type}} for the derived predicates; raises Unknown if some type cannot be determined"""
  ty = Typer(program_rules, base_sigs)
  out = {}
  for p in ty.rules_of:
    if p in base_sigs: continue
    out[p] = ty.sig(p)
  return out


def has_unknown(t):
  if t is None: return True
  if isinstance(t, tuple):
    if t[0] == 'list':
      if isinstance(t[1], tuple) and t[1][0] == 'list': return True      # lists of lists are refused by the type checker on purpose (documented in its message): not a typed program of the fragment
      return has_unknown(t[1])
    if t[0] in ('rec', 'arrow'): return any(has_unknown(x) for _, x in t[1])
  return False


def col_key(c):
  """model column name -> key used in Logica's predicate_signatures (positional: int)"""
  if isinstance(c, int): return c
  if isinstance(c, str) and c.startswith('col') and c[3:].isdigit(): return int(c[3:])
  return c


def inhabits(v, t):
  """SQLite representation of a value of type t (null always allowed)"""
  import json
  if v is None or t is None: return True
  if t == 'Num': return isinstance(v, (int, float)) and not isinstance(v, bool)
  if t == 'Str': return isinstance(v, str)
  if t == 'Bool': return v in (0, 1, True, False)
  if isinstance(v, str) and isinstance(t, tuple):
    try: v = json.loads(v)
    except ValueError: return False
  if t[0] == 'list': return isinstance(v, list) and all(inhabits(x, t[1]) for x in v)
  if t[0] == 'rec': return isinstance(v, dict) and set(v) == {str(f) for f, _ in t[1]} and all(inhabits(v[str(f)], x) for f, x in t[1])
  return True
