"""Reference evaluator: the documented multiset semantics of the core fragment, evaluated bottom-up on the
program model with nested Python loops.  No SQL, no code from /repo.  Kept boring on purpose.

A predicate's value is a list of rows (a multiset).  Several rules and `|` add multiplicities, a conjunction
multiplies them.  Conjuncts are scheduled by sideways information passing; a body that cannot be scheduled is
not range-restricted (Unsafe) - this is also the validity oracle used by C19.
"""
import itertools
from . import lang
from .lang import evars, bvars, pvars


class Unsafe(Exception): pass
class Unsupported(Exception): pass


class LV(tuple):
  """list value"""
class RV(tuple):
  """record value: sorted tuple of (field, value)"""
class BagV(tuple):
  """list whose element order is not part of the meaning (result of List / ArgMinK...): canonically sorted"""
class SetV(frozenset):
  """result of Set"""
class KBestV(tuple):
  """result of ArgMinK / ArgMaxK: any list of the keys of K entries with the K smallest (largest) values, in order of value.
  (pairs, K, largest)"""
  def admits(self, got):
    pairs, K, largest = self
    if not isinstance(got, (list, tuple)): return False
    n = min(K, len(pairs))
    if len(got) != n: return False
    vals = sorted((v for _, v in pairs), reverse=largest)[:n]
    pool = list(pairs)
    for key, v in zip(got, vals):
      if (key, v) in pool: pool.remove((key, v))
      else: return False
    return True


class OneOf(frozenset):
  """any of these values is admissible (tied ArgMin/ArgMax)"""


def ckey(v):
  """total order over all values (only used to canonicalise bags)"""
  if v is None: return (0, 0)
  if isinstance(v, bool): return (1, int(v))
  if isinstance(v, (int, float)): return (2, v)
  if isinstance(v, str): return (3, v)
  if isinstance(v, RV): return (5, tuple((str(f), ckey(x)) for f, x in v))
  if isinstance(v, KBestV): return (6, 0)
  if isinstance(v, (tuple, frozenset)): return (4, tuple(sorted(ckey(x) for x in v)) if isinstance(v, (frozenset, BagV)) else tuple(ckey(x) for x in v))
  raise Unsupported(repr(v))


def mkrec(d):
  return RV(sorted(d.items(), key=lambda kv: str(kv[0])))


def field_col(f):
  if isinstance(f, tuple) and f[0] == 'short': return f[1]    # `a:` is `a: a`
  return 'col%d' % f if isinstance(f, int) else f


def head_cols(r):
  cols = [field_col(f) for f, _ in r.args]
  if r.value is not None: cols.append('logica_value')
  return cols


# ------------------------------------------------------------------------------------------ aggregation
def aggregate(op, vals):
  if op in ('ArgMin', 'ArgMax'):
    pairs = [v for v in vals if v is not None and v[1] is not None]
    if not pairs:
      # only null values: the documentation says nulls are ignored (-> null), SQLite returns the argument of such a row; under-specified, both admitted
      nulls = [v[0] for v in vals if v is not None and v[1] is None]
      return OneOf(frozenset([None] + nulls)) if nulls else None
    best = (min if op == 'ArgMin' else max)(p[1] for p in pairs)
    cands = frozenset(p[0] for p in pairs if p[1] == best)
    return next(iter(cands)) if len(cands) == 1 else OneOf(cands)
  import re as _re
  m = _re.match(r'Arg(Min|Max)(\d)$', op)
  if m:
    pairs = [v for v in vals if v is not None and v[1] is not None]
    if not pairs: return None
    return KBestV((tuple(pairs), int(m.group(2)), m.group(1) == 'Max'))
  vs = [v for v in vals if v is not None]
  if op in ('Sum', '+'): return sum(vs) if vs else None
  if op == 'Max': return max(vs) if vs else None
  if op == 'Min': return min(vs) if vs else None
  if op == 'Count': return len(set(vs))
  if op == 'Avg': return (sum(vs) / len(vs)) if vs else None
  if op == 'List': return BagV(sorted(vs, key=ckey)) if vs else None
  if op == 'Set': return SetV(vs) if vs else None
  if op == '++': return ''.join(vs) if vs else None   # order-sensitive: only used on single-element groups
  raise Unsupported('aggregate ' + op)


# ------------------------------------------------------------------------------------------ builtins
def _range(n): return LV(range(int(n)))
BUILTINS = {
  'Size': lambda l: None if l is None else len(l),
  'ToString': lambda x: None if x is None else (str(x) if not isinstance(x, bool) else str(int(x))),
  'ToInt64': lambda x: None if x is None else int(x),
  'Greatest': lambda *a: None if any(x is None for x in a) else max(a),
  'Least': lambda *a: None if any(x is None for x in a) else min(a),
  'Range': _range,
  'Abs': lambda x: None if x is None else abs(x),
  'Sort': lambda l: None if l is None else LV(sorted(l)),
  'ArrayConcat': lambda a, b: None if a is None or b is None else LV(tuple(a) + tuple(b)),
  'Join': lambda l, sep: None if l is None or sep is None else sep.join(str(x) for x in l),
  'Split': lambda s, sep: None if s is None else LV(s.split(sep)),
}


def arith(op, a, b):
  if op == '&&':
    if a is False or b is False: return False
    if a is None or b is None: return None
    return True
  if op == '||':
    if a is True or b is True: return True
    if a is None or b is None: return None
    return False
  if a is None or b is None: return None
  if op == '+': return a + b
  if op == '-': return a - b
  if op == '*': return a * b
  if op == '%':
    if isinstance(a, float) or isinstance(b, float): raise Unsupported('% on fractional numbers')    # engine-specific (SQLite truncates)
    if b == 0: return None
    r = abs(a) % abs(b)
    return r if a >= 0 else -r
  if op == '/':
    if b == 0: return None
    q = a / b
    return int(q) if isinstance(a, int) and isinstance(b, int) and a % b == 0 else q
  if op == '++': return a + b
  if op == '==': return a == b
  if op == '!=': return a != b
  if op == '<': return a < b
  if op == '<=': return a <= b
  if op == '>': return a > b
  if op == '>=': return a >= b
  raise Unsupported(op)


class Evaluator:
  """Evaluates the predicates of one (functor-free, see functors.py in this package) program over one database."""

  def __init__(self, rules, db, depth=8, depths=None, lfp=False, lfp_cap=64, ol=None):
    self.ol = ol or {}            # predicate -> (order_by list, limit) given by @OrderBy/@Limit annotations
    self.rules_of = {}
    for r in rules: self.rules_of.setdefault(r.pred, []).append(r)
    self.db = db                      # {pred: (cols, [rows])}
    self.depth = depth; self.depths = depths or {}; self.lfp = lfp; self.lfp_cap = lfp_cap
    self.memo = {}
    self.fresh = 0
    self.comps = None
    self.current = {}                 # predicate -> (cols, rows) override during recursion
    self.standalone_memo = {}
    self.lfp_reached_at = {}

  # ---- dependency structure
  def deps(self, pred):
    out = set()
    def pe(e):
      lang.emap(e, lambda x: (out.add(x[1]) if x[0] == 'call' and x[1] in self.rules_of else None, x)[1])
    def pb(body):
      for p in body:
        t = p[0]
        if t == 'lit':
          out.add(p[1])
          for _, x in p[2]: pe(x)
        elif t == 'cmp': pe(p[1])
        elif t in ('eq', 'in'): pe(p[1]); pe(p[2])
        elif t == 'not': pb(p[1])
        elif t == 'or':
          for b in p[1]: pb(b)
        elif t == 'imp': pb(p[1]); pb(p[2])
        elif t == 'aggeq': pe(p[3]); pb(p[4])
    def pe_deep(e):
      # emap does not enter comb bodies' literals: handle comb explicitly
      def f(x):
        if x[0] == 'call' and x[1] in self.rules_of: out.add(x[1])
        if x[0] == 'comb': pb(x[3])
        return x
      lang.emap(e, f)
    pe = pe_deep
    for r in self.rules_of.get(pred, []):
      for _, e in r.args: pe(e[2] if e[0] == 'aggr' else e)
      if r.value is not None: pe(r.value[2] if r.value[0] == 'aggr' else r.value)
      if r.body: pb(r.body)
    return out

  def component(self, pred):
    """Recursive component of pred (set) or None."""
    if self.comps is None:
      self.comps = {}
      g = {p: self.deps(p) & set(self.rules_of) for p in self.rules_of}
      reach = {}
      for p in g:
        seen = set(); st = list(g[p])
        while st:
          q = st.pop()
          if q in seen: continue
          seen.add(q); st.extend(g.get(q, ()))
        reach[p] = seen
      for p in g:
        if p in reach[p]:
          self.comps[p] = frozenset(q for q in reach[p] if p in reach[q])
    return self.comps.get(pred)

  # ---- predicate values
  def rows(self, pred):
    if pred in self.current: return self.current[pred]
    if pred in self.memo: return self.memo[pred]
    if pred not in self.rules_of:
      if pred not in self.db: raise Unsupported('unknown predicate ' + pred)
      return self.db[pred]
    comp = self.component(pred)
    if comp is None:
      res = self.eval_pred(pred)
      self.memo[pred] = res
      return res
    self.eval_component(comp)
    return self.memo[pred]

  def eval_component(self, comp):
    comp = sorted(comp)
    depth = max([self.depths.get(p, self.depth) for p in comp])
    cur = {p: (head_cols(self.rules_of[p][0]), []) for p in comp}
    n = 0
    steps = self.lfp_cap if self.lfp else depth + 1
    while n < steps:
      saved = self.current
      self.current = dict(saved); self.current.update(cur)
      try:
        nxt = {p: self.eval_pred(p) for p in comp}
      finally:
        self.current = saved
      n += 1
      same = all(sorted(nxt[p][1], key=lambda r: tuple(ckey(x) for x in r)) == sorted(cur[p][1], key=lambda r: tuple(ckey(x) for x in r)) for p in comp)
      cur = nxt
      if same:
        for p in comp: self.lfp_reached_at[p] = n - 1
        break
    else:
      if self.lfp: raise Unsupported('no fixpoint within cap')
    for p in comp: self.memo[p] = cur[p]

  def eval_pred(self, pred):
    rules = self.rules_of[pred]
    cols = head_cols(rules[0])
    agg = any(r.is_agg() or r.distinct for r in rules)
    if agg and not all(r.is_distinct() for r in rules): raise Unsafe('aggregation without distinct / inconsistent distinct in ' + pred)
    sols = []     # (rule, env)
    for r in rules:
      if head_cols(r) != cols and sorted(head_cols(r)) != sorted(cols): raise Unsupported('rules of %s disagree on columns' % pred)
      body, headx = self.prepare_rule(r)
      scope = set()
      for e in headx.values(): evars(e[2] if e[0] == 'aggr' else e, scope, nested=False)
      hv = set(scope)
      scope |= bvars(body, nested=False)
      envs, bound = self.solve(body, [{}], set(), scope)
      need = set()
      for e in headx.values(): need |= self.needed(e[2] if e[0] == 'aggr' else e, scope)
      if not need <= bound: raise Unsafe('head variables %s of %s are not bound' % (sorted(need - bound), pred))
      for env in envs: sols.append((headx, env, scope))
    if not agg:
      rows = []
      for headx, env, scope in sols:
        rows.append(tuple(self.ev(headx[c], env, scope) for c in cols))
      out = (cols, rows)
    else:
      groups = {}; order = []
      first = rules and None
      aggcols = {}
      for headx, env, scope in sols:
        key = []; vals = {}
        for c in cols:
          e = headx[c]
          if e[0] == 'aggr':
            aggcols.setdefault(c, e[1])
            if aggcols[c] != e[1]: raise Unsupported('aggregation operators differ between rules')
            vals[c] = self.ev(e[2], env, scope)
          else:
            key.append(self.ev(e, env, scope))
        key = tuple(key)
        if key not in groups: groups[key] = []; order.append(key)
        groups[key].append(vals)
      rows = []
      for key in order:
        ki = iter(key); row = []
        for c in cols:
          if c in aggcols: row.append(aggregate(aggcols[c], [v[c] for v in groups[key]]))
          else: row.append(next(ki))
        rows.append(tuple(row))
      out = (cols, rows)
    lim = [r for r in rules if r.order_by or r.limit is not None]
    if lim:
      out = (cols, order_limit(cols, out[1], lim[0].order_by, lim[0].limit))
    elif pred in self.ol:
      out = (cols, order_limit(cols, out[1], self.ol[pred][0], self.ol[pred][1]))
    return out

  def prepare_rule(self, r):
    """-> (body with functional calls lifted to conjuncts, {column: head expression})"""
    headx = {}
    extra = []
    for f, e in r.args:
      headx[field_col(f)] = self.lift_head(e, extra)
    if r.value is not None: headx['logica_value'] = self.lift_head(r.value, extra)
    body = self.lift_body(tuple(r.body or ()) )
    return tuple(body) + tuple(extra), headx

  def lift_head(self, e, extra):
    if e[0] == 'aggr': return ('aggr', e[1], self.lift_expr(e[2], extra))
    return self.lift_expr(e, extra)

  def lift_expr(self, e, extra):
    """Replace calls of user predicates (outside combines) by fresh variables + conjuncts appended to extra."""
    def f(x):
      if x[0] == 'call' and x[1] in self.rules_of or (x[0] == 'call' and x[1] in self.db):
        self.fresh += 1; v = '_c%d' % self.fresh
        args = tuple((i if k is None else k, a) for i, (k, a) in enumerate(x[2]))
        extra.append(('lit', x[1], args + (('logica_value', ('v', v)),)))
        return ('v', v)
      if x[0] == 'comb':
        ex2 = []
        e2 = self.lift_expr_nocomb(x[2], ex2)
        return ('comb', x[1], e2, tuple(self.lift_body(x[3])) + tuple(ex2), x[4])
      return x
    return lang.emap(e, f)

  def lift_expr_nocomb(self, e, extra):
    return self.lift_expr(e, extra)

  def lift_body(self, body):
    out = []
    for p in body:
      t = p[0]; extra = []
      if t == 'lit': q = ('lit', p[1], tuple((k, self.lift_expr(x, extra)) for k, x in p[2]))
      elif t == 'cmp': q = ('cmp', self.lift_expr(p[1], extra))
      elif t == 'eq': q = ('eq', self.lift_expr(p[1], extra), self.lift_expr(p[2], extra), p[3])
      elif t == 'in': q = ('in', self.lift_expr(p[1], extra), self.lift_expr(p[2], extra))
      elif t == 'not': q = ('not', tuple(self.lift_body(p[1])))
      elif t == 'or': q = ('or', tuple(tuple(self.lift_body(b)) for b in p[1]))
      elif t == 'imp': q = ('not', tuple(self.lift_body(p[1])) + (('not', tuple(self.lift_body(p[2]))),))
      elif t == 'aggeq':
        ex2 = []; e2 = self.lift_expr(p[3], ex2)
        q = ('eq', ('v', p[1]), ('comb', p[2], e2, tuple(self.lift_body(p[4])) + tuple(ex2), 0), '==')
      else: raise Unsupported(t)
      out.append(q); out.extend(extra)
    return out

  # ---- scheduling and solving
  def needed(self, e, scope):
    """variables that must be bound to evaluate e in a scope"""
    direct = evars(e, nested=False)
    def f(x):
      if x[0] == 'comb': direct.update((evars(x[2]) | bvars(x[3])) & scope)
      return x
    # only top-level combs need to be inspected: evars(nested=True) covers deeper levels
    self._walk_top_combs(e, f)
    return direct

  def _walk_top_combs(self, e, f):
    t = e[0]
    if t == 'comb': f(e); return
    if t in ('v', 'n', 's', 'b', 'null'): return
    if t == 'bin': self._walk_top_combs(e[2], f); self._walk_top_combs(e[3], f)
    elif t == 'un': self._walk_top_combs(e[2], f)
    elif t == 'isnull': self._walk_top_combs(e[1], f)
    elif t == 'list':
      for x in e[1]: self._walk_top_combs(x, f)
    elif t == 'rec':
      for _, x in e[1]: self._walk_top_combs(x, f)
    elif t == 'fld': self._walk_top_combs(e[1], f)
    elif t in ('elem', 'inx', 'arrow'): self._walk_top_combs(e[1], f); self._walk_top_combs(e[2], f)
    elif t == 'if':
      for x in e[1:4]: self._walk_top_combs(x, f)
    elif t == 'call':
      for _, x in e[2]: self._walk_top_combs(x, f)
    elif t == 'aggr': self._walk_top_combs(e[2], f)

  def standalone(self, pred):
    """Can the predicate be evaluated on its own (every rule range-restricted)?"""
    if pred not in self.rules_of: return True
    if pred in self.standalone_memo: return self.standalone_memo[pred]
    self.standalone_memo[pred] = True   # recursion guard
    ok = True
    for r in self.rules_of[pred]:
      try:
        body, headx = self.prepare_rule(r)
        scope = set()
        for e in headx.values(): evars(e[2] if e[0] == 'aggr' else e, scope, nested=False)
        scope |= bvars(body, nested=False)
        _, bound = self.solve(body, [], set(), scope, static=True)
        for e in headx.values():
          if not self.needed(e[2] if e[0] == 'aggr' else e, scope) <= bound: ok = False
      except Unsafe:
        ok = False
    self.standalone_memo[pred] = ok
    return ok

  def inline(self, p):
    """A call of a non-standalone (injectible-only) predicate means its body with the arguments substituted."""
    rules = self.rules_of[p[1]]
    if len(rules) != 1 or rules[0].is_agg() or rules[0].distinct: raise Unsafe('%s is not range-restricted and cannot be injected' % p[1])
    r = rules[0]
    self.fresh += 1
    ren = {v: '_i%d_%s' % (self.fresh, v) for v in lang.rule_vars(r)}
    body, headx = self.prepare_rule(r)
    body = lang.rename_vars(body, ren)
    out = list(body)
    for f, a in p[2]:
      c = field_col(f)
      if c not in headx: raise Unsafe('%s has no argument %s' % (p[1], c))
      out.append(('eq', lang.rename_vars(headx[c], ren, 'expr'), a, '=='))
    return out

  def solve(self, body, envs, bound, scope, static=False):
    pending = list(body)
    bound = set(bound)
    while pending:
      progressed = False
      for p in list(pending):
        if p[0] == 'lit' and p[1] in self.rules_of and not self.standalone(p[1]) and p[1] not in self.current:
          pending.remove(p); new = self.inline(p); pending.extend(new)
          scope |= bvars(new, nested=False)
          progressed = True; continue
        r = self.step(p, envs, bound, scope, static)
        if r is None: continue
        envs, bound = r
        pending.remove(p); progressed = True
      if not progressed:
        raise Unsafe('cannot bind: %s' % '; '.join(lang.prop(p) for p in pending))
    return envs, bound

  def step(self, p, envs, bound, scope, static):
    t = p[0]
    if t == 'lit':
      plain = {}; other = []
      for f, x in p[2]:
        if x[0] == 'v' and x[1] not in bound and x[1] not in plain: plain[x[1]] = field_col(f)
        else: other.append((field_col(f), x))
      nb = bound | set(plain)
      for c, x in other:
        if not self.needed(x, scope) <= nb: return None
      if static: return envs, nb
      cols, rows = self.rows(p[1])
      idx = {c: i for i, c in enumerate(cols)}
      for c in list(plain.values()) + [c for c, _ in other]:
        if c not in idx: raise Unsafe('%s has no column %s' % (p[1], c))
      new = []
      for env in envs:
        for row in rows:
          e2 = dict(env)
          for v, c in plain.items(): e2[v] = row[idx[c]]
          ok = True
          for c, x in other:
            val = self.ev(x, e2, scope)
            if val is None or row[idx[c]] is None or not veq(val, row[idx[c]]): ok = False; break
          if ok: new.append(e2)
      return new, nb
    if t == 'cmp':
      if not self.needed(p[1], scope) <= bound: return None
      if static: return envs, bound
      return [e for e in envs if self.ev(p[1], e, scope) is True], bound
    if t == 'eq':
      a, b = p[1], p[2]
      na, nb_ = self.needed(a, scope), self.needed(b, scope)
      if na <= bound and nb_ <= bound:
        if static: return envs, bound
        out = []
        for e in envs:
          x, y = self.ev(a, e, scope), self.ev(b, e, scope)
          if x is not None and y is not None and veq(x, y): out.append(e)
        return out, bound
      for x, y, ny in ((a, b, nb_), (b, a, na)):
        if ny <= bound:
          pat = pattern_vars(x, bound)
          if pat is not None:
            if static: return envs, bound | pat
            out = []
            for e in envs:
              val = self.ev(y, e, scope)
              e2 = dict(e)
              if self.match(x, val, e2, scope): out.append(e2)
            return out, bound | pat
      return None
    if t == 'in':
      if not self.needed(p[2], scope) <= bound: return None
      x = p[1]
      if x[0] == 'v' and x[1] not in bound:
        if static: return envs, bound | {x[1]}
        out = []
        for e in envs:
          l = self.ev(p[2], e, scope)
          for val in (l or ()):
            e2 = dict(e); e2[x[1]] = val; out.append(e2)
        return out, bound | {x[1]}
      if not self.needed(x, scope) <= bound: return None
      if static: return envs, bound
      out = []
      for e in envs:
        l = self.ev(p[2], e, scope); val = self.ev(x, e, scope)
        for y in (l or ()):
          if val is not None and y is not None and veq(val, y): out.append(e)
      return out, bound
    if t == 'not':
      shared = bvars(p[1]) & scope
      if not shared <= bound: return None
      inner_scope = scope | bvars(p[1], nested=False)
      if static:
        self.solve(p[1], [], set(shared), inner_scope, static=True)
        return envs, bound
      out = []
      for e in envs:
        sub = {k: e[k] for k in shared}
        sols, _ = self.solve(p[1], [sub], set(shared), set(inner_scope))
        if not sols: out.append(e)
      if not envs: self.solve(p[1], [], set(shared), set(inner_scope), static=True)
      return out, bound
    if t == 'or':
      res = []; nbs = []
      for b in p[1]:
        try:
          if static: _, nb = self.solve(b, [], bound, set(scope), static=True); es = []
          else: es, nb = self.solve(b, envs, bound, set(scope))
        except Unsafe:
          return None
        res.extend(es); nbs.append(nb)
      nb = set.intersection(*nbs)
      return res, nb
    raise Unsupported(t)

  def match(self, pat, val, env, scope):
    """bind the unbound variables of pattern pat to val (pat: variable or record of patterns)"""
    if pat[0] == 'v':
      if pat[1] in env: return val is not None and env[pat[1]] is not None and veq(env[pat[1]], val)
      env[pat[1]] = val; return True
    if pat[0] == 'rec':
      if not isinstance(val, RV): return False
      d = dict(val)
      for f, x in pat[1]:
        if f not in d: return False
        if not self.match(x, d[f], env, scope): return False
      return True
    v = self.ev(pat, env, scope)
    return v is not None and val is not None and veq(v, val)

  # ---- expressions
  def ev(self, e, env, scope):
    t = e[0]
    if t == 'v':
      if e[1] not in env: raise Unsafe('unbound variable ' + e[1])
      return env[e[1]]
    if t in ('n', 's', 'b'): return e[1]
    if t == 'null': return None
    if t == 'bin': return arith(e[1], self.ev(e[2], env, scope), self.ev(e[3], env, scope))
    if t == 'un':
      v = self.ev(e[2], env, scope)
      if v is None: return None
      return -v if e[1] == '-' else (not v)
    if t == 'isnull': return self.ev(e[1], env, scope) is None
    if t == 'list': return LV(self.ev(x, env, scope) for x in e[1])
    if t == 'rec': return mkrec({field_col(f): self.ev(x, env, scope) for f, x in e[1]})
    if t == 'fld':
      r = self.ev(e[1], env, scope)
      if r is None: return None
      return dict(r)[e[2]]
    if t == 'elem':
      l, i = self.ev(e[1], env, scope), self.ev(e[2], env, scope)
      if l is None or i is None: return None
      if isinstance(i, float) or i < 0: raise Unsupported('negative or fractional list index')   # engine-specific (SQLite: JSON path error)
      if i >= len(l): return None
      return l[i]
    if t == 'inx':
      x, l = self.ev(e[1], env, scope), self.ev(e[2], env, scope)
      return any(veq(x, y) for y in l)
    if t == 'arrow': return (self.ev(e[1], env, scope), self.ev(e[2], env, scope))
    if t == 'if':
      c = self.ev(e[1], env, scope)
      return self.ev(e[2], env, scope) if c is True else self.ev(e[3], env, scope)
    if t == 'call':
      if e[1] not in BUILTINS: raise Unsupported('builtin ' + e[1])
      return BUILTINS[e[1]](*[self.ev(x, env, scope) for _, x in e[2]])
    if t == 'comb':
      inner_scope = scope | bvars(e[3], nested=False) | evars(e[2], nested=False)
      shared = (evars(e[2]) | bvars(e[3])) & scope
      sub = {k: env[k] for k in shared}
      sols, bound = self.solve(e[3], [sub], set(shared), set(inner_scope))
      if not self.needed(e[2], inner_scope) <= bound: raise Unsafe('aggregated expression not bound')
      return aggregate(e[1], [self.ev(e[2], s, inner_scope) for s in sols])
    raise Unsupported(t)


def pattern_vars(x, bound):
  """x is a pattern (an unbound variable, or a record whose fields are patterns / bound expressions):
  returns the set of variables it binds, or None."""
  if x[0] == 'v': return {x[1]} if x[1] not in bound else None
  if x[0] == 'rec':
    out = set()
    for _, y in x[1]:
      if y[0] == 'v' and y[1] not in bound: out.add(y[1])
      elif y[0] == 'rec':
        s = pattern_vars(y, bound)
        if s is None:
          if not evars(y) <= bound: return None
        else: out |= s
      elif not evars(y) <= bound: return None
    return out or None
  return None


def veq(a, b):
  if isinstance(a, bool) != isinstance(b, bool) and (isinstance(a, str) or isinstance(b, str)): return False
  return a == b


def order_limit(cols, rows, order_by, limit):
  rows = list(rows)
  if order_by:
    # `"col", "DESC"` (separate argument) is the same as `"col desc"`
    merged = []
    for spec in order_by:
      if spec.strip().upper() == 'DESC' and merged: merged[-1] = merged[-1] + ' desc'
      else: merged.append(spec)
    for spec in reversed(merged):
      parts = spec.split()
      c = parts[0]; desc = len(parts) > 1 and parts[1].lower() == 'desc'
      i = cols.index(c)
      rows.sort(key=lambda r: ckey(r[i]), reverse=desc)
  if limit is not None: rows = rows[:limit]
  return rows
