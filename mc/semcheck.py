"""Shared harness: run every predicate of a generated program through the real pipeline on every database of
its family (table form: one compile, all databases; fact form: rows written as Logica facts) and compare with the
reference evaluator."""
import itertools, time
from . import impl, lang, refsem, compare
from .lang import Rule, R, Lit, V, N

SCHEMAS = {
  'AB': {'A': ['col0', 'col1'], 'B': ['col0']},
  'ABC': {'A': ['col0', 'col1'], 'B': ['col0'], 'C': ['col0', 'col1']},
  'E': {'E': ['col0', 'col1']},
  'ABS': {'A': ['col0', 'col1'], 'B': ['col0'], 'S': ['col0']},
  'EW': {'E': ['col0', 'col1', 'col2']},
}


def multisets(dom, maxn):
  out = []
  for n in range(maxn + 1):
    out += [list(c) for c in itertools.combinations_with_replacement(dom, n)]
  return out


_DBS = {}


def dbs_ab(maxrows=2, vals=(1, 2)):
  key = ('AB', maxrows, vals)
  if key not in _DBS:
    da = multisets([(a, b) for a in vals for b in vals], maxrows)
    db = multisets([(a,) for a in vals], maxrows)
    _DBS[key] = [{'A': a, 'B': b} for a in da for b in db]
  return _DBS[key]


def dbs_abs():
  key = 'ABS'
  if key not in _DBS:
    da = multisets([(a, b) for a in (1, 2) for b in (1, 2)], 1)
    db = multisets([(1,), (2,)], 1)
    ds = multisets([('a',), ('b',)], 2)
    _DBS[key] = [{'A': a, 'B': b, 'S': s} for a in da for b in db for s in ds]
  return _DBS[key]


FACT_DBS_ABS = [{'A': [(1, 2), (2, 2)], 'B': [(2,)], 'S': [('a',), ('b',), ('a',)]}]


FACT_DBS_AB = [
  {'A': [(1, 2)], 'B': [(2,)]},
  {'A': [(1, 1), (1, 1)], 'B': [(1,), (2,)]},
  {'A': [(1, 2), (2, 1), (2, 2)], 'B': [(1,), (1,), (2,)]},
]


def facts_for(db, schema):
  out = []
  for t, rows in db.items():
    for r in rows:
      out.append(R(t, *[const(v) for v in r]))
  return out


def const(v):
  if isinstance(v, bool): return ('b', v)
  if isinstance(v, (int, float)): return N(v)
  if isinstance(v, str): return ('s', v)
  if v is None: return ('null',)
  if isinstance(v, (list, tuple)): return ('list', tuple(const(x) for x in v))
  raise ValueError(v)


class Case:
  def __init__(self, family, program, preds, schema='AB', dbs=None, fact_dbs=None, depth=8, depths=None, info=None):
    self.family = family; self.program = program; self.preds = preds; self.schema = schema
    self.dbs = dbs; self.fact_dbs = fact_dbs; self.depth = depth; self.depths = depths; self.info = info

  def text(self): return self.program.text()


_WARMED = [False]


def warm_up_other_dialects():
  """A SQLite compilation must not depend on which dialects were compiled earlier in the process: every worker first compiles one
  program for the other engines (their function templates, type machinery and library rules get loaded)."""
  if _WARMED[0]: return
  _WARMED[0] = True
  for eng in ('trino', 'psql', 'bigquery', 'clickhouse', 'duckdb'):
    t = '@Engine("%s");\nA(1, "a,b", [1, 2]);\nT(ArrayConcat(l, l), Split(s, ","), Size(l), Greatest(x, 2), Least(x, 2), ToString(x), Sort(l), Element(l, 0), Range(2), Log(x)) :- A(x, s, l);\n' % eng
    impl.Compiled(t).sql('T')


class Harness:
  def __init__(self):
    impl.accelerate_library_parse()
    warm_up_other_dialects()
    self.conns = {}
    self.stats = dict(programs=0, executions=0, compiles=0, nontrivial=0, comparisons=0, unsupported=0)
    self.viol = []
    self.samples = []
    self.outcomes = set()

  def conn(self, schema):
    if schema not in self.conns: self.conns[schema] = impl.Db(SCHEMAS[schema])
    return self.conns[schema]

  def add_viol(self, sig, what, case, extra=None):
    c = dict(text=case.text(), family=case.family, preds=case.preds, schema=case.schema)
    if extra: c.update(extra)
    self.viol.append(dict(sig=sig, what=what, case=c))

  def expected(self, case, pred, db, rules=None):
    tables = {t: (SCHEMAS[case.schema][t], [tuple(r) for r in rows]) for t, rows in db.items()}
    for t, cols in SCHEMAS[case.schema].items(): tables.setdefault(t, (cols, []))
    for t in list(tables): tables['main.' + t] = tables[t]        # the schema-qualified spelling of the same table
    ev = refsem.Evaluator(rules if rules is not None else case.program.rules(), tables, depth=case.depth, depths=case.depths, ol=getattr(case, 'ol', None))
    return ev.rows(pred)

  def run_case(self, case, classify=None, ordered=False, prepared_rules=None, table_form=True, prefilter=None):
    """classify(case, pred, db, exp, got_outcome, diff) -> signature suffix or None(=generic)."""
    self.stats['programs'] += 1
    text = case.text()
    results = set(); nonempty = False
    if table_form and case.dbs:
      comp = impl.Compiled(text); self.stats['compiles'] += 1
      db = self.conn(case.schema)
      for pred in case.preds:
        script = comp.sql(pred)
        if script[0] != 'script':
          self.add_viol(compile_sig(case, script), 'valid program not compiled: %s %s | %s' % (script[1], script[2][:200], oneline(text)), case, dict(pred=pred))
          continue
        for d in case.dbs:
          if prefilter and not prefilter(case, d): continue
          try:
            exp = self.expected(case, pred, d, prepared_rules)
          except refsem.Unsupported as e:
            self.stats['unsupported'] += 1; break
          db.load(d)
          got = db.run(script); self.stats['executions'] += 1; self.stats['comparisons'] += 1
          key = None
          if got[0] != 'rows':
            diff = 'SQL error: ' + got[1]
          else:
            diff = compare.compare_rows(exp[0], exp[1], got[1], got[2], ordered=ordered)
            key = hash(repr(sorted(map(repr, got[2]))))
            results.add(key)
            if got[2]: nonempty = True
          if diff:
            specific = classify(case, pred, d, exp, got, diff) if classify else None
            sig = specific or 'mismatch/%s' % case.family
            self.add_viol(sig, '%s on %s: %s | %s' % (pred, d, diff, oneline(text)), case, dict(pred=pred, db=d))
            if not specific: break    # a classified (possibly known) phenomenon must not mask a different one on a later database
    for d in (case.fact_dbs or []):
      if prefilter and not prefilter(case, d): continue
      prog2 = lang.Program(facts_for(d, case.schema) + case.program.stmts, case.program.engine, case.program.type_checking)
      case2 = Case(case.family, prog2, case.preds, case.schema, depth=case.depth, depths=case.depths, info=case.info)
      case2.ol = getattr(case, 'ol', None)
      comp = impl.Compiled(prog2.text()); self.stats['compiles'] += 1
      db = self.conn(case.schema); db.load({})
      for pred in case.preds:
        script = comp.sql(pred)
        if script[0] != 'script':
          self.add_viol(compile_sig(case, script, '/facts'), 'valid program not compiled: %s %s | %s' % (script[1], script[2][:200], oneline(prog2.text())), case2, dict(pred=pred))
          continue
        try:
          exp = self.expected(case, pred, d, prepared_rules)
        except refsem.Unsupported:
          self.stats['unsupported'] += 1; continue
        got = db.run(script); self.stats['executions'] += 1; self.stats['comparisons'] += 1
        if got[0] != 'rows': diff = 'SQL error: ' + got[1]
        else:
          diff = compare.compare_rows(exp[0], exp[1], got[1], got[2], ordered=ordered)
          results.add(hash(repr(sorted(map(repr, got[2])))))
          if got[2]: nonempty = True
        if diff:
          sig = (classify(case2, pred, d, exp, got, diff) if classify else None) or 'mismatch/%s/facts' % case.family
          self.add_viol(sig, '%s (fact form): %s | %s' % (pred, diff, oneline(prog2.text())), case2, dict(pred=pred))
    if len(results) > 1 and nonempty: self.stats['nontrivial'] += 1
    self.outcomes |= results
    if len(self.samples) < 2:
      self.samples.append(dict(family=case.family, program=text, predicates=case.preds, databases=len(case.dbs or []) + len(case.fact_dbs or [])))

  def result(self, max_viol_per_sig=3):
    by = {}
    for v in self.viol: by.setdefault(v['sig'], []).append(v)
    viol = []
    stats = dict(self.stats)
    for s, vs in by.items():
      vs.sort(key=lambda v: len(v['what'])); viol.extend(vs[:max_viol_per_sig])
    stats['distinct_outcomes_local'] = len(self.outcomes)
    return dict(stats=stats, viol=viol, samples=self.samples, keys=dict(outcomes=self.outcomes))

  def close(self):
    for c in self.conns.values(): c.close()


def in_list_mentions_own_element(node):
  """some `v in [...]` conjunct (at any depth: bodies of negations, disjunctions, combines) whose list mentions v itself"""
  if isinstance(node, tuple):
    if len(node) == 3 and node[0] == 'in' and isinstance(node[1], tuple) and node[1][:1] == ('v',):
      try:
        if node[1][1] in lang.evars(node[2]): return True
      except Exception: pass
    return any(in_list_mentions_own_element(x) for x in node)
  if isinstance(node, list): return any(in_list_mentions_own_element(x) for x in node)
  return False


def compile_sig(case, script, suffix=''):
  """signature of a 'valid program not compiled' violation; the one recorded defect of this kind (finding F26) gets a narrow signature"""
  if script[1] == 'RuleCompileException' and 'circular dependency of' in script[2] and any(in_list_mentions_own_element(r.body or ()) for r in case.program.rules()):
    return 'F26-in-list-mentioning-its-own-element-ahead-of-the-binding-literal'
  if case.family == 'INJ-RECORD-PATTERN' and script[1] == 'RuleCompileException' and 'Found no way to assign variables' in script[2]:
    return 'F47-record-pattern-inside-a-predicate-injected-twice'
  return 'compile-%s/%s%s' % (script[1], case.family, suffix)


def oneline(text):
  return ' '.join(l for l in text.split('\n') if l and not l.startswith('@Engine'))


def replay_case(case_dict, classify=None, ordered=False):
  """Re-run one recorded case text (the program text is stored, so the replay needs no generator)."""
  raise NotImplementedError
