"""Meaning-preserving rewritings of a generated program (C07): permutations of rules, facts, conjuncts, disjuncts;
consistent renamings of variables and of predicates."""
import itertools
from . import lang, functor_model
from .lang import Rule, Functor, Ann, Program

VAR_MAPS = [
  {'x': 'zz', 'y': 'col0', 'z': 'a', 's': 'y1', 't': 'b', 'u': 'x0', 'n': 'zn', 'm': 'am', 'd': 'w'},
  {'x': 'col1', 'y': 'value', 'z': 'arg', 's': 'x', 't': 'table', 'u': 'res', 'n': 'k', 'm': 'n', 'd': 'left'},
  {'x': 'y', 'y': 'z', 'z': 'x', 's': 'u', 't': 's', 'u': 't', 'n': 'm', 'm': 'n'},
  {'x': 't_0', 'y': 'xx_1', 'z': 'x1', 's': 'col0', 't': 'x', 'u': 'y', 'n': 'record', 'm': 'right', 'd': 'xx_0'},
  # names that embed a keyword of the grammar next to an underscore
  {'x': 'v_else', 'y': 'then_w', 'z': 'z_limit', 's': 'is_k', 't': 'in_t', 'u': 'u_distinct', 'n': 'n_if', 'm': 'order_by_m', 'd': 'd_in'},
]
PRED_MAP_DESC = ['Zeta', 'Yota', 'Xi', 'Whisky', 'Victor', 'Uniform', 'Tango2', 'Sierra', 'Romeo', 'Quebec', 'Papa', 'Oscar', 'Nu', 'Mike']
PRED_MAP_KEYWORDS = ['Zeta_limit', 'Yota_distinct', 'Xi_else', 'Whisky_then', 'Victor_in', 'Uniform_is', 'Tango_if', 'Sierra_order_by', 'Romeo_limit', 'Quebec_else', 'Papa_then', 'Oscar_in', 'Nu_is', 'Mike_if']


def perms(seq, limit=6):
  seq = list(seq)
  if len(seq) <= 1: return []
  if len(seq) <= 3: return [list(p) for p in itertools.permutations(seq)][1:]
  return [seq[::-1], seq[1:] + seq[:1], seq[-1:] + seq[:-1]]


def nested_reverse(body):
  """reverse every nested body (negations, combines, disjuncts, implications) and the order of disjuncts"""
  def fe(e):
    if e[0] == 'comb': return ('comb', e[1], e[2], tuple(reversed(e[3])), e[4])
    return e
  out = []
  for p in body:
    t = p[0]
    if t == 'not': out.append(('not', tuple(reversed(nested_reverse(p[1])))))
    elif t == 'or': out.append(('or', tuple(reversed([nested_reverse(b) for b in p[1]]))))
    elif t == 'imp': out.append(('imp', tuple(reversed(p[1])), tuple(reversed(p[2]))))
    elif t == 'aggeq': out.append(('aggeq', p[1], p[2], lang.emap(p[3], fe), tuple(reversed(p[4]))))
    else: out.append(lang.pmap(p, fe))
  return tuple(out)


def rename_rule_vars(r, m):
  f = lambda e: ('v', m.get(e[1], e[1])) if e[0] == 'v' else e
  r2 = lang.rule_map(r, f)
  return r2


def variants(program, preds, thorough=False):
  """-> list of (kind, Program, preds)"""
  out = []
  stmts = program.stmts
  rule_idx = [i for i, s in enumerate(stmts) if isinstance(s, Rule)]
  # 1. conjunct permutations, one rule at a time
  for i in rule_idx:
    r = stmts[i]
    if r.body and len(r.body) > 1:
      for p in perms(r.body):
        out.append(('conjuncts', Program(stmts[:i] + [r.replace(body=tuple(p))] + stmts[i + 1:], program.engine, program.type_checking), preds))
  # 2. nested bodies and disjunct order
  changed = False; new = []
  for s in stmts:
    if isinstance(s, Rule) and s.body:
      b2 = nested_reverse(s.body)
      if b2 != s.body: changed = True
      new.append(s.replace(body=b2))
    else: new.append(s)
  if changed: out.append(('nested', Program(new, program.engine, program.type_checking), preds))
  # 3. statement order (rules, functors, annotations together)
  movable = [i for i, s in enumerate(stmts)]
  if len(movable) > 1:
    for p in perms(movable):
      out.append(('statements', Program([stmts[i] for i in p], program.engine, program.type_checking), preds))
  # 4. variable renamings (consistent within each rule)
  for m in VAR_MAPS:
    new = [rename_rule_vars(s, m) if isinstance(s, Rule) else s for s in stmts]
    out.append(('variables', Program(new, program.engine, program.type_checking), preds))
  # 5. predicate renaming that reverses the alphabetical order of the defined predicates
  defined = sorted(program.defined())
  if defined:
    pm = {p: PRED_MAP_DESC[i] for i, p in enumerate(defined)}
    new = []
    for s in stmts:
      if isinstance(s, Rule): new.append(functor_model.rename_preds_in_rule(s, pm))
      elif isinstance(s, Functor): new.append(Functor(pm.get(s.new, s.new), pm.get(s.base, s.base), tuple((pm.get(a, a), pm.get(b, b)) for a, b in s.bindings)))
      elif isinstance(s, Ann):
        t = s.text
        for a, b in pm.items():
          t = t.replace('(%s,' % a, '(%s,' % b).replace('(%s)' % a, '(%s)' % b)
        new.append(Ann(t))
      else: new.append(s)
    out.append(('predicates', Program(new, program.engine, program.type_checking), [pm.get(p, p) for p in preds], pm))
    # the same with names that embed a keyword of the grammar after an underscore
    pm = {p: PRED_MAP_KEYWORDS[i] for i, p in enumerate(defined)}
    new = []
    for s in stmts:
      if isinstance(s, Rule): new.append(functor_model.rename_preds_in_rule(s, pm))
      elif isinstance(s, Functor): new.append(Functor(pm.get(s.new, s.new), pm.get(s.base, s.base), tuple((pm.get(a, a), pm.get(b, b)) for a, b in s.bindings)))
      elif isinstance(s, Ann):
        t = s.text
        for a, b in pm.items():
          t = t.replace('(%s,' % a, '(%s,' % b).replace('(%s)' % a, '(%s)' % b)
        new.append(Ann(t))
      else: new.append(s)
    out.append(('predicates', Program(new, program.engine, program.type_checking), [pm.get(p, p) for p in preds], pm))
  return out
